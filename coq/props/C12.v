(* C12 - the in-memory and the file-backed value stores are observationally equivalent for single-process histories.
   Statements only; every proof is `exact <lemma>` (proofs/EquivProofs.v).
   Model: model/Equiv.v = the composition of
     model/Metrics.v   (C01: metrics.py over MutexValue cells; mem_step adds the gauge multiprocess_mode),
     model/Values.v    (C09: file naming prefix_of / fname, fs_open / fs_read / fs_write of the abstract directory),
     model/Multiproc.v (C08: MultiProcessCollector.merge_named over the files of the directory, parse_fname).
   One history `ops` (calls with the reading of time.time() during each) is run through mem_run and through mp_run;
   norm_mem / norm_mp remove exactly the intended differences; `sim` = equal as multisets of series
   (sample name, labels up to order, value numerically with NaN = NaN).
   Domain (call_ok, wf_reg): calls are method calls and labels() - no remove()/clear() (refuted below: multiprocess
   mode does not implement removal); the clock is positive; families are freshly constructed, names pairwise distinct,
   label names pairwise distinct, no gauge label named pid (refuted below), gauge modes among the ten; the process id
   has no underscore.  For histograms additionally: no label named le (reserved by the library) and pairwise distinct
   formatted bounds.
   Float facts are Section hypotheses: FL1 (v == 0.0 + v numerically), FL3 fragments (0.0 < 0.0 is false; < is
   transitive; a < b implies b != a), FL4 (integer-valued doubles below 2^53 add exactly, stated on fcount). *)
From V Require Import lib.PyBase model.Metrics model.Equiv proofs.EquivProofs proofs.EquivHistProofs proofs.EquivLeProofs.
From V Require model.Multiproc model.Values.
From Coq Require Import Permutation.
Open Scope N_scope.

Section C12.
  Variable F : Type.
  Variables fzero fone finf : F.
  Variable fadd : F -> F -> F.
  Variable fneg : F -> F.
  Variables flt fle feqb : F -> F -> bool.
  Variable of_Z : Z -> res F.              (* float(int): OverflowError beyond the double range *)
  Variable zlef : Z -> F -> bool.          (* Python int <= float: exact *)
  Variable parse_le : str -> F.            (* float(str) on an le label value *)
  Variable fmt_le : F -> str.              (* utils.floatToGoString *)
  (* FL1: a value read through defaultdict(float) is 0.0 + v: numerically v (-0.0 becomes 0.0, NaN stays NaN) *)
  Hypothesis FL1 : forall v, feq F feqb v (fadd fzero v).
  (* FL3 fragments: the set-time of mostrecent gauges (0.0 < t) and the order of the bucket bounds *)
  Hypothesis FLT_zero : flt fzero fzero = false.
  Hypothesis FLT_trans : forall a b c, flt a b = true -> flt b c = true -> flt a c = true.
  Hypothesis FLT_ne : forall a b, flt a b = true -> feqb b a = false.
  (* FL4: a count cell is 0.0 + 1 + ... + 1 (fcount n); such values below 2^53 add exactly *)
  Hypothesis FL4 : forall a b, a + b < 2 ^ 53 ->
    fadd (fcount F fzero fone fadd a) (fcount F fzero fone fadd b) = fcount F fzero fone fadd (a + b).
  Let FLT_pos : forall t, flt fzero t = true -> feqb t fzero = false := fun t H => FLT_ne fzero t H.

  Notation MEM metas fams ops := (mem_run F fzero fadd fneg flt fle of_Z zlef metas (mem_init F fams) ops).
  Notation MP metas pid fams ops :=
    (mp_run F fzero fone fadd fneg flt fle feqb of_Z zlef fmt_le metas pid (mp_init F fzero fmt_le metas pid fams) ops).
  Notation COLLECT_MP d := (collect_mp F fzero fadd flt feqb parse_le fmt_le d).

  (* ===== C12: the equivalence, family by family, for all four kinds and all ten gauge modes =====
     For every family of the registry the in-process samples and the samples the multiprocess collector reports under
     that family's name are the same multiset of series after norm (with C12_no_foreign_families: the whole collection).
     Histogram families (hwf): bounds strictly increasing (so no two numerically equal bounds - refuted otherwise),
     first bound not negative (sum_exposed - refuted otherwise), float(floatToGoString(b)) = b on the bounds (C13),
     no label called le; counts_small: the histogram count cells of the final state are below 2^53 (the domain of FL4;
     implied by a history of fewer than 2^53 observations - that implication is not proved here). *)
  Theorem C12_equiv : forall metas pid fams ops,
    wf_reg F fzero fmt_le metas fams ->
    (forall fam0, In fam0 fams -> f_kind fam0 = KHistogram -> hwf F fzero flt fle parse_le fmt_le fam0) ->
    ~ In Multiproc.US pid -> Forall (call_ok F fzero flt) ops ->
    forall f fam me, nth_error (m_reg F (MEM metas fams ops)) f = Some fam -> nth_error metas f = Some me ->
      (f_kind fam = KHistogram -> counts_small F fam) ->
      sim F feqb (norm_mem F fzero fone fadd fle fmt_le me (m_log F (MEM metas fams ops)) f fam)
                 (norm_mp F (f_kind fam) me (mp_family F (f_name fam) (COLLECT_MP (p_fs F (MP metas pid fams ops))))).
  Proof. exact (equiv_all F fzero fone fadd fneg flt fle feqb of_Z zlef parse_le fmt_le FL1 FLT_zero FLT_trans FLT_ne FL4). Qed.

  (* the same for counters, gauges and summaries alone: needs neither FL4 nor the order facts *)
  Theorem C12_equiv_three_kinds : forall metas pid fams ops,
    wf_reg F fzero fmt_le metas fams -> ~ In Multiproc.US pid -> Forall (call_ok F fzero flt) ops ->
    forall f fam me, nth_error (m_reg F (MEM metas fams ops)) f = Some fam -> nth_error metas f = Some me ->
      f_kind fam <> KHistogram ->
      sim F feqb (norm_mem F fzero fone fadd fle fmt_le me (m_log F (MEM metas fams ops)) f fam)
                 (norm_mp F (f_kind fam) me (mp_family F (f_name fam) (COLLECT_MP (p_fs F (MP metas pid fams ops))))).
  Proof. exact (equiv_non_histogram F fzero fone fadd fneg flt fle feqb of_Z zlef parse_le fmt_le FL1 FLT_zero FLT_pos). Qed.

  (* the collector's merge of a histogram family's entries, explicitly: per child the _sum series, then the cumulative
     buckets in bound order and _count = the last cumulative value (this is where duplicate or unsorted bounds,
     a text form of a bound that does not parse back, or a count taken from another cell would show) *)
  Theorem C12_histogram_merge : forall (fam : mfamily F (child F)) me K,
    hwf F fzero flt fle parse_le fmt_le fam -> Forall (kid_ok F fam) K -> NoDup (map fst K) ->
    (forall kc, In kc K -> total (hc F (snd kc)) < 2 ^ 53) ->
    Multiproc.acc_histogram F fzero fadd flt feqb parse_le fmt_le (f_name fam)
      (map (SM F fzero) (flat_map (kidL F fzero fone fadd fmt_le fam me) K))
    = map (sumout F fzero fadd fam) K ++ flat_map (writes F fzero fone fadd fmt_le fam) K.
  Proof. exact (hist_acc F fzero fone fadd flt fle feqb parse_le fmt_le FLT_trans FLT_ne FL4). Qed.

  (* ===== all four kinds: call by call the two back-ends return the same outcome (Ok / which exception) ===== *)
  Theorem C12_outcomes_agree : forall metas pid fams ops,
    wf_reg F fzero fmt_le metas fams -> Forall (call_ok F fzero flt) ops ->
    forall pre now o post, ops = pre ++ (now, o) :: post ->
      snd (mp_step F fzero fone fadd fneg flt fle feqb of_Z zlef fmt_le metas pid (MP metas pid fams pre) now o)
      = snd (mem_step F fzero fadd fneg flt fle of_Z zlef metas (MEM metas fams pre) o).
  Proof. exact (equiv_outcomes F fzero fone fadd fneg flt fle feqb of_Z zlef fmt_le FLT_pos). Qed.

  (* ===== all four kinds: after ANY history the directory holds exactly the cells of the in-memory registry =====
     For every family: the entries carrying its name sit in its own file ({typ}[_{mode}]_{pid}.db) and are, in order,
     the encoding of the in-memory children (enc_kids: per child the mmap keys of _metric_init with the in-memory
     values; count cells as 0.0 + 1 + ... + 1; gauges with a set-time); no other file has an entry of that name; no file
     name occurs twice; a mostrecent gauge child has a positive set-time exactly when it accepted set() (the log). *)
  Theorem C12_files_hold_the_cells : forall metas pid fams ops,
    wf_reg F fzero fmt_le metas fams -> Forall (call_ok F fzero flt) ops ->
    NoDup (map fst (p_fs F (MP metas pid fams ops)))
    /\ exists tsfs : nat -> key -> F,
         forall f fam me, nth_error (m_reg F (MEM metas fams ops)) f = Some fam -> nth_error metas f = Some me ->
           (forall fn, view (f_name fam) (Values.fs_content F (p_fs F (MP metas pid fams ops)) fn)
                       = if Values.fname_eqb fn (fam_file F fam me pid)
                         then enc_kids F fzero fone fadd fmt_le fam me (tsfs f) (kids F fam) else [])
           /\ NoDup (map fst (kids F fam))
           /\ (f_kind fam = KGauge -> is_mr (fm_mode me) = true -> forall lv, In lv (map fst (kids F fam)) ->
                 if in_log (m_log F (MEM metas fams ops)) f lv then flt fzero (tsfs f lv) = true else tsfs f lv = fzero).
  Proof. exact (files_hold_the_cells F fzero fone fadd fneg flt fle feqb of_Z zlef fmt_le FLT_pos). Qed.

  (* ===== all four kinds: the multiprocess collector reports no family the registry does not have (every entry of
     every file carries the name of a registered family), so the per-family statement above is the whole collection ===== *)
  Theorem C12_no_foreign_families : forall metas pid fams ops,
    wf_reg F fzero fmt_le metas fams -> Forall (call_ok F fzero flt) ops ->
    forall n h t ss, In (n, h, t, ss) (COLLECT_MP (p_fs F (MP metas pid fams ops))) ->
      In n (map (fun fam : mfamily F (child F) => f_name fam) (m_reg F (MEM metas fams ops))).
  Proof. exact (no_foreign_families F fzero fone fadd fneg flt fle feqb of_Z zlef parse_le fmt_le FLT_pos). Qed.

  (* one call of the file-backed run and of the in-memory run keep the invariant behind the two theorems above *)
  Theorem C12_step_simulation : forall pid metas s p tsfs now o,
    Inv F fzero fone fadd flt fmt_le pid metas s p tsfs -> tpos F fzero flt feqb now -> no_removal F o ->
    snd (mp_step F fzero fone fadd fneg flt fle feqb of_Z zlef fmt_le metas pid p now o)
    = snd (mem_step F fzero fadd fneg flt fle of_Z zlef metas s o)
    /\ exists tsfs', Inv F fzero fone fadd flt fmt_le pid metas
                       (fst (mem_step F fzero fadd fneg flt fle of_Z zlef metas s o))
                       (fst (mp_step F fzero fone fadd fneg flt fle feqb of_Z zlef fmt_le metas pid p now o)) tsfs'.
  Proof. exact (step_sim F fzero fone fadd fneg flt fle feqb of_Z zlef fmt_le). Qed.

  (* ===== composition with C09: the cell operations of model/Equiv.v are Values.step on the directory =====
     for a closure whose identity did not change (st_pid = st_actual) and a value object whose cached value is its
     file cell (the invariant C09_continues_from_file establishes): inc, set, and the creation of a value object whose
     file prefix this process has not opened yet *)
  Theorem C12_cell_ops_are_values_steps :
    (forall st d i v a,
       Values.st_pid F st = Values.st_actual F st -> nth_error (Values.st_values F st) i = Some v ->
       Values.v_val F v = rd F fzero d (Values.v_file F v) (Values.p_key (Values.v_params F v)) ->
       snd (fst (Values.step F fzero fadd feqb st d (Values.Inc F i a)))
       = mp_inc F fzero fadd d (Values.v_file F v) (Values.p_key (Values.v_params F v)) a)
    /\ (forall st d i v x ts,
          Values.st_pid F st = Values.st_actual F st -> nth_error (Values.st_values F st) i = Some v ->
          snd (fst (Values.step F fzero fadd feqb st d (Values.Set_ F i x ts)))
          = wr F fzero d (Values.v_file F v) (Values.p_key (Values.v_params F v)) x (Values.ts_or_zero F fzero feqb ts))
    /\ (forall st d p,
          Values.st_pid F st = Values.st_actual F st ->
          d_find Values.prefix_eqb (Values.st_files F st) (Values.prefix_of p) = None ->
          snd (fst (Values.step F fzero fadd feqb st d (Values.New F p)))
          = mp_new F fzero d (Values.prefix_of p, Values.st_pid F st) (Values.p_key p)).
  Proof.
    exact (conj (step_inc_bridge F fzero fadd feqb) (conj (step_set_bridge F fzero fadd feqb) (step_new_bridge F fzero fadd feqb))).
  Qed.
End C12.

(* ===== the file name values.py writes is the one multiprocess.py parses (type, mode and pid come back) ===== *)
Theorem C12_file_names_round_trip : forall k mode pid,
  supported k = true -> (k = KGauge -> In mode GAUGE_MODES) -> ~ In Multiproc.US pid ->
  Multiproc.parse_fname (fname_str (fname_of k mode pid))
  = match k with KGauge => (Multiproc.S_gauge, mode, pid) | _ => (typ_of k, [], []) end.
Proof. exact parse_file_name. Qed.

Theorem C12_supported_kinds : forall k, supported k = true <-> k = KCounter \/ k = KGauge \/ k = KSummary \/ k = KHistogram.
Proof. exact supported_four. Qed.

(* ===== outside the domain the statement is FALSE of the code as it is (the four known findings) =====
   witnesses on a toy float type (integers; exact arithmetic), closed by vm_compute: the two normalised collections do
   not even have the same number of series *)
Import Toy12.
(* F9: Histogram(buckets=[-1, 1]).observe(1): _sum only in the multiprocess collection *)
Theorem C12_negative_first_bound_refuted :
  ~ sim Z Z.eqb (tnorm_mem [meta0] w_neg_fams w_neg_ops 0) (tnorm_mp [meta0] w_neg_fams w_neg_ops 0).
Proof. exact neg_bound_witness. Qed.
(* F10: Histogram(buckets=[1, 1, 2]): two in-process le=1 samples, one multiprocess *)
Theorem C12_equal_bounds_refuted :
  ~ sim Z Z.eqb (tnorm_mem [meta0] w_dup_fams w_neg_ops 0) (tnorm_mp [meta0] w_dup_fams w_neg_ops 0).
Proof. exact dup_bound_witness. Qed.
(* Gauge('g','h',['pid'], multiprocess_mode='sum') with children x=3, y=4: one merged multiprocess series *)
Theorem C12_pid_label_refuted :
  ~ sim Z Z.eqb (tnorm_mem w_pid_metas w_pid_fams w_pid_ops 0) (tnorm_mp w_pid_metas w_pid_fams w_pid_ops 0).
Proof. exact pid_label_witness. Qed.
(* c.labels('a').inc(2); c.remove('a'): the multiprocess collection still has c_total{l=a} 2 *)
Theorem C12_remove_refuted :
  ~ sim Z Z.eqb (tnorm_mem [meta0] w_rm_fams w_rm_ops 0) (tnorm_mp [meta0] w_rm_fams w_rm_ops 0).
Proof. exact remove_witness. Qed.

Print Assumptions C12_equiv.
Print Assumptions C12_equiv_three_kinds.
Print Assumptions C12_histogram_merge.
Print Assumptions C12_outcomes_agree.
Print Assumptions C12_files_hold_the_cells.
Print Assumptions C12_no_foreign_families.
Print Assumptions C12_step_simulation.
Print Assumptions C12_cell_ops_are_values_steps.
Print Assumptions C12_file_names_round_trip.
Print Assumptions C12_supported_kinds.
Print Assumptions C12_negative_first_bound_refuted.
Print Assumptions C12_equal_bounds_refuted.
Print Assumptions C12_pid_label_refuted.
Print Assumptions C12_remove_refuted.

(* ===== non-vacuity: the hypotheses of C12_equiv_partial hold of a registry with a labelled counter, a mostrecent gauge
   and a summary, and of a history with positional and keyword labels, a child that is never set, a rejected inc on
   the mostrecent gauge (RuntimeError) and a rejected labels() call; the float hypotheses hold of the toy instance;
   both sides compute to the same series: counter c{l=x,a=y} 5; gauge g{l=k} 0 (g{l=never} dropped on the in-process
   side by norm, absent on the multiprocess side); summary count 1, sum 5 ===== *)
Example C12_example :
  wf_reg Z 0%Z tfmt ex_metas ex_fams /\ Forall (call_ok Z 0%Z Z.ltb) ex_ops
  /\ (forall v : Z, feq Z Z.eqb v (0 + v)%Z) /\ Z.ltb 0 0 = false /\ (forall t : Z, Z.ltb 0 t = true -> Z.eqb t 0 = false)
  /\ map snd (tnorm_mem ex_metas ex_fams ex_ops 0) = [5%Z] /\ map snd (tnorm_mp ex_metas ex_fams ex_ops 0) = [5%Z]
  /\ map snd (tnorm_mem ex_metas ex_fams ex_ops 1) = [0%Z] /\ map snd (tnorm_mp ex_metas ex_fams ex_ops 1) = [0%Z]
  /\ map snd (tnorm_mem ex_metas ex_fams ex_ops 2) = [1%Z; 5%Z] /\ map snd (tnorm_mp ex_metas ex_fams ex_ops 2) = [1%Z; 5%Z]
  /\ length (m_reg Z (tmem ex_metas ex_fams ex_ops)) = 3%nat.
Proof.
  split; [exact toy_wf|split; [exact toy_calls|split; [exact t_FL1|split; [exact t_FLT_zero|split; [exact t_FLT_pos|]]]]].
  vm_compute. repeat split.
Qed.

(* a USER label named le is inside the domain on every type but Histogram (keys_wf excludes le for histograms only - the
   library reserves the name there and nowhere else): Counter('c',['le']), Summary('s',['z','le']) and
   Gauge('g',['le'], multiprocess_mode='sum') with le values float() rejects ("abc") and two spellings of one number
   ("1", "1.0") satisfy the hypotheses of C12_equiv, and both sides compute to the same series: three counter series
   c_total{le=abc} 7, {le=1} 3, {le=1.0} 4 (kept apart, none dropped); s_count 1, s_sum 6; g{le=0.5} 8, g{le=abc} 9 *)
Import ToyLe.
Example C12_example_user_le_label :
  wf_reg Z 0%Z tfmt le_metas le_fams /\ Forall (call_ok Z 0%Z Z.ltb) le_ops
  /\ map snd (tnorm_mem le_metas le_fams le_ops 0) = [7%Z; 3%Z; 4%Z] /\ map snd (tnorm_mp le_metas le_fams le_ops 0) = [7%Z; 3%Z; 4%Z]
  /\ map snd (tnorm_mem le_metas le_fams le_ops 1) = [1%Z; 6%Z] /\ map snd (tnorm_mp le_metas le_fams le_ops 1) = [1%Z; 6%Z]
  /\ map snd (tnorm_mem le_metas le_fams le_ops 2) = [8%Z; 9%Z] /\ map snd (tnorm_mp le_metas le_fams le_ops 2) = [8%Z; 9%Z]
  /\ map (fun kv => snd (fst kv)) (tnorm_mp le_metas le_fams le_ops 0)
     = [[(Multiproc.S_le, s2l "abc")]; [(Multiproc.S_le, s2l "1")]; [(Multiproc.S_le, s2l "1.0")]].
Proof.
  split; [exact le_wf|split; [exact le_calls|]].
  vm_compute. repeat split.
Qed.

(* the same for a registry with a labelled histogram (bounds 0, 5, +Inf) and a counter: hypotheses hold, both sides
   compute to the same eight series of h: per child three cumulative buckets, _count, _sum *)
Import ToyHist.
Example C12_example_histogram :
  wf_reg Z 0%Z tfmt hx_metas hx_fams
  /\ (forall fam0, In fam0 hx_fams -> f_kind fam0 = KHistogram -> hwf Z 0%Z Z.ltb Z.leb tparse tfmt fam0)
  /\ Forall (call_ok Z 0%Z Z.ltb) hx_ops
  /\ (forall a b c : Z, Z.ltb a b = true -> Z.ltb b c = true -> Z.ltb a c = true)
  /\ (forall a b : Z, Z.ltb a b = true -> Z.eqb b a = false)
  /\ (forall a b, a + b < 2 ^ 53 -> (fcount Z 0%Z 1%Z Z.add a + fcount Z 0%Z 1%Z Z.add b)%Z = fcount Z 0%Z 1%Z Z.add (a + b))
  /\ map snd (tnorm_mem hx_metas hx_fams hx_ops 0) = [0%Z; 1%Z; 2%Z; 2%Z; 10%Z; 1%Z; 1%Z; 1%Z; 1%Z; 0%Z]
  /\ length (tnorm_mp hx_metas hx_fams hx_ops 0) = 10%nat
  /\ map snd (tnorm_mp hx_metas hx_fams hx_ops 1) = [2%Z].
Proof.
  split; [exact hx_wf|split; [exact hx_hwf|split; [exact hx_calls|split; [exact t_FLT_trans|split; [exact t_FLT_ne|split; [exact t_FL4|]]]]]].
  vm_compute. repeat split.
Qed.

(* ===== counts_small discharged: the length of the history instead =====
   (proofs/EquivLenProofs.v)  n_observe ops = the number of calls  metric[.labels(..)].observe(x)  in the history.
   After ANY history from freshly constructed metrics every non-cumulative bucket count of every histogram cell of the
   in-memory registry, and their sum (= the cumulative +Inf bucket = _count), is at most n_observe ops (no domain
   restriction on the calls is needed for this: remove()/clear() included). *)
From V Require Import proofs.EquivLenProofs.
Section C12len.
  Variable F : Type.
  Variables fzero fone finf : F.
  Variable fadd : F -> F -> F.
  Variable fneg : F -> F.
  Variables flt fle feqb : F -> F -> bool.
  Variable of_Z : Z -> res F.
  Variable zlef : Z -> F -> bool.
  Variable parse_le : str -> F.
  Variable fmt_le : F -> str.
  Hypothesis FL1 : forall v, feq F feqb v (fadd fzero v).
  Hypothesis FLT_zero : flt fzero fzero = false.
  Hypothesis FLT_trans : forall a b c, flt a b = true -> flt b c = true -> flt a c = true.
  Hypothesis FLT_ne : forall a b, flt a b = true -> feqb b a = false.
  Hypothesis FL4 : forall a b, a + b < 2 ^ 53 ->
    fadd (fcount F fzero fone fadd a) (fcount F fzero fone fadd b) = fcount F fzero fone fadd (a + b).

  Notation MEM metas fams ops := (mem_run F fzero fadd fneg flt fle of_Z zlef metas (mem_init F fams) ops).
  Notation MP metas pid fams ops :=
    (mp_run F fzero fone fadd fneg flt fle feqb of_Z zlef fmt_le metas pid (mp_init F fzero fmt_le metas pid fams) ops).
  Notation COLLECT_MP d := (collect_mp F fzero fadd flt feqb parse_le fmt_le d).

  Theorem C12_counts_bounded_by_observes : forall metas (fams : mregistry F) ops,
    (forall fam, In fam fams -> fresh_fam F fzero fam) ->
    forall f fam, nth_error (m_reg F (MEM metas fams ops)) f = Some fam ->
      forall kc, In kc (kids F fam) ->
        total (hc F (snd kc)) <= n_observe F ops /\ (forall c, In c (hc F (snd kc)) -> c <= n_observe F ops).
  Proof. exact (counts_bounded_by_observes F fzero fadd fneg flt fle of_Z zlef). Qed.

  Theorem C12_observes_le_length : forall ops : list (F * mcall F), n_observe F ops <= N.of_nat (length ops).
  Proof. exact (n_observe_le_length F). Qed.

  (* C12_equiv with  `fewer than 2^53 observe() calls`  in place of counts_small *)
  Theorem C12_equiv_observes : forall metas pid fams ops,
    wf_reg F fzero fmt_le metas fams ->
    (forall fam0, In fam0 fams -> f_kind fam0 = KHistogram -> hwf F fzero flt fle parse_le fmt_le fam0) ->
    ~ In Multiproc.US pid -> Forall (call_ok F fzero flt) ops ->
    n_observe F ops < 2 ^ 53 ->
    forall f fam me, nth_error (m_reg F (MEM metas fams ops)) f = Some fam -> nth_error metas f = Some me ->
      sim F feqb (norm_mem F fzero fone fadd fle fmt_le me (m_log F (MEM metas fams ops)) f fam)
                 (norm_mp F (f_kind fam) me (mp_family F (f_name fam) (COLLECT_MP (p_fs F (MP metas pid fams ops))))).
  Proof. exact (equiv_all_observes F fzero fone fadd fneg flt fle feqb of_Z zlef parse_le fmt_le FL1 FLT_zero FLT_trans FLT_ne FL4). Qed.

  (* ... and with the length of the history *)
  Theorem C12_equiv_hist_len : forall metas pid fams ops,
    wf_reg F fzero fmt_le metas fams ->
    (forall fam0, In fam0 fams -> f_kind fam0 = KHistogram -> hwf F fzero flt fle parse_le fmt_le fam0) ->
    ~ In Multiproc.US pid -> Forall (call_ok F fzero flt) ops ->
    N.of_nat (length ops) < 2 ^ 53 ->
    forall f fam me, nth_error (m_reg F (MEM metas fams ops)) f = Some fam -> nth_error metas f = Some me ->
      sim F feqb (norm_mem F fzero fone fadd fle fmt_le me (m_log F (MEM metas fams ops)) f fam)
                 (norm_mp F (f_kind fam) me (mp_family F (f_name fam) (COLLECT_MP (p_fs F (MP metas pid fams ops))))).
  Proof. exact (equiv_all_hist_len F fzero fone fadd fneg flt fle feqb of_Z zlef parse_le fmt_le FL1 FLT_zero FLT_trans FLT_ne FL4). Qed.
End C12len.

Print Assumptions C12_counts_bounded_by_observes.
Print Assumptions C12_observes_le_length.
Print Assumptions C12_equiv_observes.
Print Assumptions C12_equiv_hist_len.

(* non-vacuity: the toy histogram history above has 4 observe() calls among its 5 calls; both bounds are met, and the
   largest count cell of the final state (child a: buckets 0, 1, 2 -> total 3) is within the bound and not 0 *)
Example C12_equiv_hist_len_nonvacuous :
  n_observe Z hx_ops = 4 /\ N.of_nat (length hx_ops) = 5 /\ N.of_nat (length hx_ops) < 2 ^ 53
  /\ (forall fam, In fam hx_fams -> fresh_fam Z 0%Z fam)
  /\ map (fun kc => total (hc Z (snd kc)))
         (flat_map (kids Z) (m_reg Z (mem_run Z 0%Z Z.add Z.opp Z.ltb Z.leb (fun z => Ok z) Z.leb hx_metas (mem_init Z hx_fams) hx_ops)))
     = [3; 1; 0].
Proof.
  split; [reflexivity|split; [reflexivity|split; [reflexivity|split]]].
  - intros fam [<-|[<-|[]]]; split; reflexivity.
  - vm_compute. reflexivity.
Qed.
