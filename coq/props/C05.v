(* C05 - no application-supplied string can break the line structure of any wire format.  Statements only.
   Models: model/Expo.v (both expositions), model/Graphite.v.  nlf s = number of line feeds in s.
   The only hypotheses are about pieces no application supplies: the type word and CPython's repr of a float /
   str() of a float timestamp hold no line feed (fam_clean / fam_clean_om; re-checked per case by the harness).
   Names, label names, label values, help, units, exemplar labels are ARBITRARY strings. *)
From V Require Import lib.PyBase lib.PyStr model.Utils model.Validation model.Expo model.Graphite
  proofs.EscapeProofs proofs.LineProofs proofs.GrammarProofs proofs.DocRoundTrip proofs.DocGrammar proofs.DocGrammarOM.
From V Require Import model.LineGrammar.
Open Scope N_scope.

(* the core of every line-structure argument: escaped text never contains a raw line feed *)
Theorem C05_escape_no_lf : forall s, ~ In LF (escape_chain s).
Proof. exact (fun s => eq_ind_r (fun t => ~ In LF t) (escape_no_lf s) (escape_chain_eq s)). Qed.
Print Assumptions C05_escape_no_lf.

Theorem C05_help_escape_no_lf : forall s, ~ In LF (help_escape_chain s).
Proof. exact (fun s => eq_ind_r (fun t => ~ In LF t) (help_escape_no_lf s) (help_escape_chain_eq s)). Qed.
Print Assumptions C05_help_escape_no_lf.

(* text format: the number of lines is two per family, one per sample, two per trailing gauge group -
   whatever the supplied strings are: nothing can add, remove, split or merge a line *)
Theorem C05_text_line_count : forall fams, Forall fam_clean fams ->
  nlf (text_render fams)
  = fold_right (fun f acc => (2 + length (f_samples f) + 2 * trailing_groups f + acc)%nat) 0%nat fams.
Proof. exact nlf_text_render. Qed.
Print Assumptions C05_text_line_count.

(* OpenMetrics: two (three with a unit) per family, one per sample, and the output ends in '# EOF' LF *)
Theorem C05_om_line_count : forall fams out, Forall fam_clean_om fams -> om_render true fams = Ok out ->
  nlf out = (fold_right (fun f acc => (om_family_lines f + acc)%nat) 0%nat fams + 1)%nat
  /\ exists body, out = body ++ S_EOF ++ [LF].
Proof. exact nlf_om_render. Qed.
Print Assumptions C05_om_line_count.

(* Graphite: every name and label is sanitised to [A-Za-z0-9_-]; a line holds exactly one LF and two spaces
   (the caller's prefix, str(float(value)) and the integer time are assumed free of both) *)
Theorem C05_graphite_line : forall tags prefix name labels value now,
  nlf prefix = 0%nat -> cnt SP prefix = 0%nat -> nlf value = 0%nat -> cnt SP value = 0%nat ->
  nlf now = 0%nat -> cnt SP now = 0%nat ->
  nlf (gr_line tags prefix name labels value now) = 1%nat /\
  cnt SP (gr_line tags prefix name labels value now) = 2%nat.
Proof. exact gr_line_structure. Qed.
Print Assumptions C05_graphite_line.

Theorem C05_sanitize_alphabet : forall s, Forall (fun c => graphite_ok c = true) (sanitize s).
Proof. exact sanitize_chars. Qed.
Print Assumptions C05_sanitize_alphabet.

(* every sample line of the text exposition is accepted by the INDEPENDENT line grammar (model/LineGrammar.v, written
   from the format description and sharing no code with the exposition or the parsers), whatever the sample name,
   label names and label values are; the only hypothesis is about the float token CPython/floatToGoString produced:
   +Inf, -Inf, NaN or a run of [0-9.e+-] (value_token; re-checked per case by the harness) *)
Theorem C05_text_sample_line_in_grammar : forall s, value_token (go_string (s_value s)) ->
  exists body, text_sample_line s = body ++ [LF] /\ is_sample_line_text body = true.
Proof. exact text_sample_line_in_grammar. Qed.
Print Assumptions C05_text_sample_line_in_grammar.

(* the HELP and TYPE lines of a family are accepted by the grammar for ANY metric name and help text *)
Theorem C05_text_meta_lines_in_grammar : forall mname doc typ, mem_str typ type_words_text = true ->
  exists l1 l2, text_meta mname doc typ = l1 ++ [LF] ++ l2 ++ [LF] /\
    is_help_line false l1 = true /\ is_type_line type_words_text l2 = true.
Proof. exact text_meta_lines. Qed.
Print Assumptions C05_text_meta_lines_in_grammar.

(* non-vacuity: a family whose every string is hostile satisfies the hypotheses; it renders as 3 lines *)
Example C05_example :
  let hostile := [LF; DQ; BS; LF] in
  let f := {| f_name := hostile; f_doc := hostile; f_type := s2l "gauge"; f_unit := [];
              f_samples := [{| s_name := hostile; s_labels := [(hostile, hostile)];
                               s_value := FFin true (s2l "1.0"); s_ts_ms := None; s_ts_om := None; s_ex := None |}] |} in
  fam_clean f /\ nlf (text_render [f]) = 3%nat.
Proof. cbv zeta. split; [split; [reflexivity|repeat constructor]|vm_compute; reflexivity]. Qed.

(* ================= whole documents =================
   The text exposition is exactly the LF-terminated lines HELP, TYPE, one line per sample, block after block
   (a family's main block, then one gauge block per kind of _created/_gcount/_gsum series present), every line
   free of line feeds and accepted by the independent grammar: text_doc_ok is the grammar's own document recogniser.
   Hypotheses (fam_grammar_ok): the family type is one of the eight type words (the Metric constructor's check) and
   the two facts about CPython's float rendering per sample (sample_clean, value_token; re-checked per case by the
   harness).  Names, label names, label values and help texts are ARBITRARY strings. *)
Theorem C05_text_document_lines : forall fams, Forall fam_grammar_ok fams ->
  text_render fams = unlines (flat_map block_lines (flat_map blocks_of fams)) /\
  Forall (fun l => nlf l = 0%nat /\ text_line_ok l = true) (flat_map block_lines (flat_map blocks_of fams)).
Proof. exact (fun fams H => conj (text_render_unlines fams) (text_render_lines_ok fams H)). Qed.

Theorem C05_text_document_in_grammar : forall fams, Forall fam_grammar_ok fams -> text_doc_ok (text_render fams) = true.
Proof. exact text_render_doc_ok. Qed.

(* OpenMetrics: a sample line - series, value, optional timestamp (int, sec.nanos or float token), optional exemplar
   with arbitrary label strings - is accepted by the grammar whatever the names and label strings are *)
Theorem C05_om_sample_line_in_grammar : forall ftype fname s line,
  om_sample_tokens_ok s -> om_sample_line true ftype fname s = Ok line ->
  exists body, line = body ++ [LF] /\ is_sample_line_om body = true.
Proof. exact om_sample_line_in_grammar. Qed.

(* a family is written as HELP, TYPE, UNIT exactly when it has a unit, then one line per sample *)
Theorem C05_om_family_lines : forall f out, fam_grammar_ok_om f -> om_family true f = Ok out ->
  exists bodies, length bodies = length (f_samples f) /\
    Forall (fun b => nlf b = 0%nat /\ is_sample_line_om b = true) bodies /\
    out = unlines (om_help_line (f_name f) (f_doc f) :: om_type_line (f_name f) (f_type f)
                   :: (match f_unit f with [] => [] | u => [om_unit_line (f_name f) u] end) ++ bodies).
Proof. exact om_family_lines_ok. Qed.

(* the whole OpenMetrics document is accepted by the grammar's document recogniser: every line a HELP / TYPE / UNIT /
   sample line, and exactly one EOF line, the last (the EOF line is none of the other kinds) *)
Theorem C05_om_document_in_grammar : forall fams out, Forall fam_grammar_ok_om fams -> om_render true fams = Ok out ->
  om_doc_ok out = true /\
  exists ls, out = unlines (ls ++ [L_EOF]) /\ Forall (fun l => nlf l = 0%nat /\ om_line_ok l = true) ls /\ ~ In L_EOF ls.
Proof. exact om_render_doc_ok. Qed.

(* non-vacuity: a (native-histogram style) family with hostile strings everywhere, a unit, a nanosecond timestamp and an
   exemplar with hostile label strings satisfies the hypotheses and is exposed as 5 lines *)
Example C05_document_example :
  let hostile := [LF; DQ; BS; 32; 35; 123; 125; 44; LF] in
  let s := {| s_name := hostile; s_labels := [(hostile, hostile)]; s_value := FFin true (s2l "1.0"); s_ts_ms := Some 1500%Z;
              s_ts_om := Some (TsNanos 1 500000000);
              s_ex := Some {| ex_labels := [(hostile, hostile)]; ex_value := FFin true (s2l "2.5"); ex_ts := Some (TsInt 7) |} |} in
  let f := {| f_name := hostile; f_doc := hostile; f_type := s2l "histogram"; f_unit := hostile; f_samples := [s] |} in
  fam_grammar_ok f /\ fam_grammar_ok_om f /\ text_doc_ok (text_render [f]) = true /\
  exists out, om_render true [f] = Ok out /\ om_doc_ok out = true /\ nlf out = 5%nat.
Proof.
  cbv zeta.
  assert (V1 : value_token (go_string (FFin true (s2l "1.0")))).
  { right; right; right. vm_compute. repeat split; try discriminate. repeat constructor. }
  assert (V2 : value_token (go_string (FFin true (s2l "2.5")))).
  { right; right; right. vm_compute. repeat split; try discriminate. repeat constructor. }
  split; [|split; [|split]].
  - split; [reflexivity|]. constructor; [|constructor]. split; [|exact V1]. split; reflexivity.
  - split; [reflexivity|]. constructor; [|constructor]. split.
    + repeat split; reflexivity.
    + split; [exact V1|]. split; [exact I|]. split; [exact V2|exact I].
  - vm_compute. reflexivity.
  - eexists. split; [vm_compute; reflexivity|]. split; vm_compute; reflexivity.
Qed.

Print Assumptions C05_text_document_lines.
Print Assumptions C05_text_document_in_grammar.
Print Assumptions C05_om_sample_line_in_grammar.
Print Assumptions C05_om_family_lines.
Print Assumptions C05_om_document_in_grammar.
