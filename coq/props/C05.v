(* C05 - no application-supplied string can break the line structure of any wire format.  Statements only. *)
From V Require Import lib.PyBase lib.PyStr model.Validation model.Expo model.TextParser proofs.EscapeProofs.
Open Scope N_scope.

(* the core of every line-structure argument: escaped text never contains a raw line feed *)
Theorem C05_escape_no_lf : forall s, ~ In LF (escape_chain s).
Proof. exact (fun s => eq_ind_r (fun t => ~ In LF t) (escape_no_lf s) (escape_chain_eq s)). Qed.
Print Assumptions C05_escape_no_lf.

Theorem C05_help_escape_no_lf : forall s, ~ In LF (help_escape_chain s).
Proof. exact (fun s => eq_ind_r (fun t => ~ In LF t) (help_escape_no_lf s) (help_escape_chain_eq s)). Qed.
Print Assumptions C05_help_escape_no_lf.
