(* C14 (OpenMetrics half) - the OpenMetrics parser is total.  Statements only; proofs: proofs/OMTotal.v.
   Model: model/OMParser.v (prometheus_client/openmetrics/parser.py after the repairs fixes/C14-om-*.diff and the
   _unquote_unescape guard); the five repair flags the property depends on are fixed to true, every other setting
   (legacy validation, fix_unit, fix_quote, fix_tsexp, fix_sname) and every CPython oracle (int(), float(), number
   comparison, float(Timestamp), the re classes \w \s \d) is universally quantified.

   only_VE m  =  m is Ok _ or Err ValueError.  In particular never Err OutOfFuel (termination: the fuel of every
   loop - _split_quoted, the label loop of parse_labels, the three re.findall scans - is proved sufficient) and never
   KeyError / TypeError / AttributeError / IndexError / OverflowError / UnboundLocalError.

   One hypothesis, digit_not_space: a character of the re class \d is not str.strip() whitespace.  It is a fact about
   CPython (checked over all code points at every run by harness/c14om.check_platform_facts) and it is needed:
   proofs/OMTotal.om_total_digit_hypothesis_needed evaluates the model with a \d class holding the space character to
   Err UnboundLocalError (the unbound `elems` of _compose_deltas).

   Bottom-up:
   * readers, each for an arbitrary input string: parse_labels in OpenMetrics mode (the label loop ends on ANY
     input - an empty term is an error - so the exemplar labels, cut at the LAST unquoted closing brace, need no
     brace-freeness), _parse_timestamp (parts[1] is never out of range), _parse_remaining_text, _parse_nh_struct,
     _parse_nh_sample, _parse_sample;
   * _check_histogram on a sample list whose members are hist_ok (a native-histogram sample: no value and none of
     the float-sample suffixes; any other sample: value and labels present, the name is family name + suffix, and a
     _bucket sample has an le label), with the scan invariant HI (the locals of do_checks are bound whenever a group
     is open);
   * one line of the loop under the state invariant Inv (no family in progress => no type and no allowed names;
     in a histogram / gaugehistogram family every allowed name starts with the family name and every recorded sample
     is hist_ok), which every line preserves;
   * the document. *)
From V Require Import lib.PyBase lib.PyStr model.Validation model.Expo model.TextParser model.OMParser
  proofs.OMProofs proofs.OMTotal proofs.ParseSession.
Open Scope N_scope.

Theorem C14_om_parse_labels_total : forall legacy s, only_VE (parse_labels legacy true s true).
Proof. exact VE_parse_labels_om. Qed.
Print Assumptions C14_om_parse_labels_total.

Section C14omt.
  Variable legacy fix_unit fix_quote fix_tsexp fix_sname : bool.
  Variable NUM : Type.
  Variable parse_num parse_float : str -> option NUM.
  Variable parse_int : str -> option Z.
  Variable num_lt num_eqb : NUM -> NUM -> bool.
  Variable num_isinf num_integral num_huge : NUM -> bool.
  Variable num_zero num_one num_inf : NUM.
  Variable ts_float : Z -> Z -> option NUM.
  Variable is_word is_space_re is_digit_re : char -> bool.

  Definition digit_not_space : Prop := forall c, is_digit_re c = true -> is_space_uni c = false.

  Theorem C14_om_parse_timestamp_total : forall t,
    only_VE (om_parse_timestamp fix_tsexp NUM parse_float parse_int num_eqb num_isinf t).
  Proof. exact (VE_parse_timestamp fix_tsexp NUM parse_float parse_int num_eqb num_isinf). Qed.

  Theorem C14_om_parse_remaining_text_total : forall text,
    only_VE (om_parse_remaining_text legacy true fix_quote fix_tsexp NUM parse_num parse_float parse_int num_eqb
               num_isinf text).
  Proof.
    exact (VE_parse_remaining_text legacy fix_quote fix_tsexp NUM parse_num parse_float parse_int num_eqb num_isinf).
  Qed.

  Theorem C14_om_parse_sample_total : forall text,
    only_VE (om_parse_sample legacy true fix_quote fix_tsexp fix_sname NUM parse_num parse_float parse_int num_eqb
               num_isinf text).
  Proof.
    exact (VE_parse_sample legacy fix_quote fix_tsexp fix_sname NUM parse_num parse_float parse_int num_eqb num_isinf).
  Qed.

  Theorem C14_om_parse_nh_struct_total : digit_not_space -> forall text,
    only_VE (om_parse_nh_struct true NUM parse_float parse_int is_word is_space_re is_digit_re text).
  Proof. exact (VE_parse_nh_struct NUM parse_float parse_int is_word is_space_re is_digit_re). Qed.

  Theorem C14_om_parse_nh_sample_total : digit_not_space -> forall text,
    only_VE (om_parse_nh_sample legacy true true true NUM parse_float parse_int is_word is_space_re is_digit_re text).
  Proof. exact (VE_parse_nh_sample legacy NUM parse_float parse_int is_word is_space_re is_digit_re). Qed.

  (* the line is read as a native-histogram sample first when the family in progress is a histogram *)
  Theorem C14_om_read_sample_total : digit_not_space -> forall typ line,
    only_VE (om_read_sample legacy true true true fix_quote fix_tsexp fix_sname NUM parse_num parse_float parse_int
               num_eqb num_isinf is_word is_space_re is_digit_re typ line).
  Proof.
    exact (VE_read_sample legacy fix_quote fix_tsexp fix_sname NUM parse_num parse_float parse_int num_eqb num_isinf
             is_word is_space_re is_digit_re).
  Qed.

  (* _check_histogram: KeyError / TypeError / AttributeError / UnboundLocalError are excluded by hist_ok *)
  Theorem C14_om_check_histogram_total : forall name samples,
    Forall (hist_ok NUM name) samples ->
    only_VE (om_check_histogram NUM parse_float num_lt num_eqb num_zero num_inf samples name).
  Proof. exact (VE_check_hist NUM parse_float num_lt num_eqb num_zero num_inf). Qed.

  (* build_metric on the family in progress of a state that satisfies the loop invariant *)
  Theorem C14_om_flush_total : forall st,
    Inv NUM st -> only_VE (om_flush legacy NUM parse_float num_lt num_eqb num_zero num_inf st).
  Proof. exact (VE_flush legacy NUM parse_float num_lt num_eqb num_zero num_inf). Qed.

  Notation step := (om_step_line legacy true true true true true fix_unit fix_quote fix_tsexp fix_sname
                      NUM parse_num parse_float parse_int num_lt num_eqb num_isinf num_integral num_huge
                      num_zero num_one num_inf ts_float is_word is_space_re is_digit_re).

  (* one line: nothing but ValueError, and the invariant is preserved; it holds initially *)
  Theorem C14_om_step_total : digit_not_space -> forall st line,
    Inv NUM st ->
    only_VE (step st line) /\ (forall st' out, step st line = Ok (st', out) -> Inv NUM st').
  Proof.
    exact (step_total legacy fix_unit fix_quote fix_tsexp fix_sname NUM parse_num parse_float parse_int num_lt num_eqb
             num_isinf num_integral num_huge num_zero num_one num_inf ts_float is_word is_space_re is_digit_re).
  Qed.

  Theorem C14_om_invariant_initial : Inv NUM om_st_init.
  Proof. exact (Inv_init NUM). Qed.

  (* the document *)
  Theorem C14_om_total : digit_not_space -> forall text,
    only_VE (om_parse legacy true true true true true fix_unit fix_quote fix_tsexp fix_sname
               NUM parse_num parse_float parse_int num_lt num_eqb num_isinf num_integral num_huge
               num_zero num_one num_inf ts_float is_word is_space_re is_digit_re text).
  Proof.
    exact (om_parse_total legacy fix_unit fix_quote fix_tsexp fix_sname NUM parse_num parse_float parse_int num_lt
             num_eqb num_isinf num_integral num_huge num_zero num_one num_inf ts_float is_word is_space_re is_digit_re).
  Qed.

  (* the same outcome on every run of a process: a run is a sequence of parses, the parser module keeps nothing between
     calls (type_suffixes, seen_names, seen_groups are locals of one call), so a run is the parser mapped over its
     documents and a document met at two points of two runs has one outcome (harness/c14hist.py observes this) *)
  Let om := om_parse legacy true true true true true fix_unit fix_quote fix_tsexp fix_sname
               NUM parse_num parse_float parse_int num_lt num_eqb num_isinf num_integral num_huge
               num_zero num_one num_inf ts_float is_word is_space_re is_digit_re.

  Theorem C14_om_history_independent : forall (before after : list str) (text : str),
    nth_error (session _ _ om (before ++ text :: after)) (length before) = Some (om text).
  Proof. intros before after text; exact (session_history_independent _ _ om before text after). Qed.

  Theorem C14_om_same_outcome_in_any_run : forall (run1 run2 : list str) i j text,
    nth_error run1 i = Some text -> nth_error run2 j = Some text ->
    nth_error (session _ _ om run1) i = nth_error (session _ _ om run2) j.
  Proof. intros run1 run2 i j text; exact (session_same_outcome _ _ om run1 run2 i j text). Qed.

  (* the greedy repetitions inside re_spans / re_deltas never stop for lack of fuel *)
  Theorem C14_om_regex_fuel_sufficient : forall s k,
    om_span_more is_digit_re (length s + k) s = om_span_more is_digit_re (length s) s
    /\ om_deltas_more is_digit_re (length s + k) s = om_deltas_more is_digit_re (length s) s.
  Proof.
    intros s k. split; [apply span_more_fuel|apply deltas_more_fuel]; apply Nat.le_add_r || apply Nat.le_refl.
  Qed.
End C14omt.
Print Assumptions C14_om_parse_timestamp_total.
Print Assumptions C14_om_parse_remaining_text_total.
Print Assumptions C14_om_parse_sample_total.
Print Assumptions C14_om_parse_nh_struct_total.
Print Assumptions C14_om_parse_nh_sample_total.
Print Assumptions C14_om_read_sample_total.
Print Assumptions C14_om_check_histogram_total.
Print Assumptions C14_om_flush_total.
Print Assumptions C14_om_step_total.
Print Assumptions C14_om_invariant_initial.
Print Assumptions C14_om_total.
Print Assumptions C14_om_regex_fuel_sufficient.

(* non-vacuity: the ASCII instance of the oracles meets the hypothesis, and under it a document with classic buckets,
   a native-histogram sample, an exemplar and a float-form timestamp is accepted (two families, 5 + 1 samples) *)
Example C14_om_total_nonvacuous :
  (forall c, is_digit c = true -> is_space_uni c = false)
  /\ doc_total_ok_shape = true.
Proof. exact (conj toy_digit_not_space om_total_nonvacuous). Qed.
Print Assumptions C14_om_history_independent.
Print Assumptions C14_om_same_outcome_in_any_run.
