(* C10 - The mmap store returns exactly what was written, across growth and reopen.
   Statements only; every proof is `exact <lemma>`.  Model: model/MmapDict.v (byte-exact model of
   prometheus_client/mmap_dict.py; a file is a list of bytes, keys are byte strings = the UTF-8 encodings,
   a value is the pair of 8-byte strings struct packs for (value, timestamp)).
   Vocabulary (proofs/MmapDictProofs.v):
     run isz ops     = Ok (file, handle, effect trace) of MmapedDict(path) on a missing path followed by ops
     spec ops        = the Python dict of the history: d_set in first-write order, last written pair;
                       ReadV k (read_value) inserts (k, zero, zero) when k is new; Reopen changes nothing
     wf_op           = the two packed doubles are 8 bytes each
     total es        = sum of the entry sizes 4 + len k + pad + 16;   8 + total es = the used-bytes header
     enc e           = le32(len k) ++ k ++ 1..8 spaces ++ value ++ timestamp
     Rep isz b h es  = the representation invariant (rep_* fields)
   Constants: isz = _INITIAL_MMAP_SIZE (any value >= 8; 65536 in the source), pg = mmap.PAGESIZE (>= 4).
   Hypothesis `8 + total (spec ops) < 2^31`: struct 'i' (a 2 GiB file raises struct.error). *)
From V Require Import lib.PyBase model.MmapDict proofs.MmapDictProofs.
Open Scope N_scope.

(* After ANY history the three read paths return exactly the written dict, bit for bit and in first-write order:
   read_all_values() on the handle, read_all_values_from_file(), read_value(k) for every stored k; every key occurs
   once; and close + MmapedDict(path) rebuilds exactly the same handle (capacity, used bytes, positions). *)
Theorem C10_abs : forall isz pg, 8 <= isz -> 4 <= pg -> forall ops,
  Forall wf_op ops -> 8 + total (spec ops) < 2147483648 ->
  exists b h tr, run isz ops = Ok (Some b, h, tr) /\ Rep isz b h (spec ops) /\
    read_all b h = Ok (spec ops) /\ read_all_from_file pg b = Ok (spec ops) /\
    (forall k v, In (k, v) (spec ops) -> peek b h k = Ok v) /\
    open_ isz (Some b) = Ok (h, []) /\ NoDup (map fst (spec ops)).
Proof. exact C10_main. Qed.
Print Assumptions C10_abs.

(* The invariant is inductive from ANY represented state (in particular after a reopen, at any point, by a later
   process): continuing with any history keeps it and refines the dict semantics. *)
Theorem C10_continue : forall isz pg, 8 <= isz -> 4 <= pg -> forall ops b h es,
  Rep isz b h es -> Forall wf_op ops -> 8 + total (spec_from es ops) < 2147483648 ->
  exists h' tr b', run_from isz (Some b, h) ops = Ok (Some b', h', tr) /\
    apply_effects (Some b) tr = Ok (Some b') /\ Rep isz b' h' (spec_from es ops).
Proof.
  exact (fun isz pg H1 H2 ops b h es R W B =>
    match run_from_spec isz pg H1 H2 ops b h es R W B with
    | ex_intro _ h' (ex_intro _ tr (ex_intro _ b' (conj A (conj B' (conj C _))))) =>
        ex_intro _ h' (ex_intro _ tr (ex_intro _ b' (conj A (conj B' C))))
    end).
Qed.
Print Assumptions C10_continue.

(* what the invariant says about reading *)
Theorem C10_rep_reads : forall isz pg, 4 <= pg -> forall b h es, Rep isz b h es ->
  read_all b h = Ok es /\ read_all_from_file pg b = Ok es /\ (forall k v, In (k, v) es -> peek b h k = Ok v).
Proof. exact rep_reads. Qed.
Print Assumptions C10_rep_reads.

(* reopen preserves capacity, used bytes and every position: the rebuilt handle IS the old one *)
Theorem C10_reopen : forall isz pg, 8 <= isz -> 4 <= pg -> forall b h es,
  Rep isz b h es -> open_ isz (Some b) = Ok (h, []).
Proof. exact reopen_spec. Qed.
Print Assumptions C10_reopen.

(* a close/reopen anywhere in a history does not change what the history stores *)
Theorem C10_reopen_transparent : forall a b, spec (a ++ Reopen :: b) = spec (a ++ b).
Proof. exact spec_reopen. Qed.
Print Assumptions C10_reopen_transparent.

(* layout: the file is header(used) ++ entries ++ rest; every entry starts 8-aligned, is >= 24 bytes, a multiple of
   8 long, equals enc e byte for byte, and the entries tile [8, used) *)
Theorem C10_layout : forall isz pg, 8 <= isz -> 4 <= pg -> forall b h es, Rep isz b h es ->
  (exists junk, b = header (used h) ++ flat es ++ junk) /\ used h = 8 + total es /\ used h mod 8 = 0 /\
  forall es1 e es2, es = es1 ++ e :: es2 ->
    (8 + total es1) mod 8 = 0 /\ esize (fst e) mod 8 = 0 /\ 24 <= esize (fst e) /\
    slice b (8 + total es1) (esize (fst e)) = enc e /\ 8 + total es1 + esize (fst e) <= used h.
Proof. exact rep_layout. Qed.
Print Assumptions C10_layout.

(* capacity = file length = initial size * 2^j, never below the used bytes *)
Theorem C10_capacity : forall isz b h es, Rep isz b h es ->
  (exists j : N, capacity h = isz * 2 ^ j) /\ len b = capacity h /\ used h <= capacity h.
Proof. exact rep_capacity. Qed.
Print Assumptions C10_capacity.

(* the doubling loop terminates within the fuel the model supplies, for every positive capacity and every need,
   with the least sufficient number j of doublings' worth of truncates *)
Theorem C10_grow_terminates : forall cap need, 0 < cap ->
  exists j : nat, grow (grow_fuel need) cap need = Ok (cap * 2 ^ N.of_nat j, truncs cap j) /\
                  need <= cap * 2 ^ N.of_nat j.
Proof. exact grow_terminates. Qed.
Print Assumptions C10_grow_terminates.

(* the reader's loop terminates on EVERY byte string (corrupt files included): the fuel S (length data) the model
   supplies is never exhausted, for the open-handle path and for the file path *)
Theorem C10_reader_terminates : forall pg b d used,
  read_all_from_file pg b <> Err OutOfFuel /\ read_all_values_raw d used <> Err OutOfFuel.
Proof. exact (fun pg b d used => conj (reader_terminates pg b) (read_all_values_raw_terminates d used)). Qed.
Print Assumptions C10_reader_terminates.

(* the reader inverts the layout for ANY entry list (the parsing lemma) *)
Theorem C10_parse : forall es fuel junk used pos,
  Forall wf_entry es -> Forall (fun e => len (fst e) < 2147483648) es ->
  (length es <= fuel)%nat -> used = pos + total es ->
  read_loop fuel (flat es ++ junk) used pos = Ok (with_pos pos es).
Proof. exact read_loop_parse. Qed.
Print Assumptions C10_parse.

(* non-vacuity: a history with an overwrite, a 4-byte-UTF-8 key, a reopen, a read_value of a new key, NaN-payload and
   -0.0 bit patterns, at initial size 8 (three doublings); hypotheses hold and the file reads back as the dict *)
Definition ex_ops : list op :=
  [Write [97] [1;0;0;0;0;0;248;127] [0;0;0;0;0;0;0;128]; Write [240;159;152;128] [1;2;3;4;5;6;7;8] zero8;
   Reopen; Write [97] [255;255;255;255;255;255;255;255] [9;9;9;9;9;9;9;9]; ReadV [98;98;98;98;98]].
Example C10_example :
  Forall wf_op ex_ops /\ 8 + total (spec ex_ops) < 2147483648 /\
  spec ex_ops = [([97], ([255;255;255;255;255;255;255;255], [9;9;9;9;9;9;9;9]));
                 ([240;159;152;128], ([1;2;3;4;5;6;7;8], zero8)); ([98;98;98;98;98], (zero8, zero8))] /\
  match run 8 ex_ops with
  | Ok (Some b, h, _) => read_all b h = Ok (spec ex_ops) /\ read_all_from_file 4096 b = Ok (spec ex_ops)
                         /\ len b = 128 /\ used h = 96
  | _ => False
  end.
Proof.
  split; [repeat constructor|]. split; [vm_compute; reflexivity|]. split; [vm_compute; reflexivity|].
  vm_compute. repeat split; reflexivity.
Qed.
