(* C10 - The mmap store returns exactly what was written, across growth and reopen.
   Statements only; every proof is `exact <lemma>`.  Model: model/MmapDict.v (byte-exact model of
   prometheus_client/mmap_dict.py; a file is a list of bytes, keys are byte strings = the UTF-8 encodings,
   a value is the pair of 8-byte strings struct packs for (value, timestamp)).
   Vocabulary (proofs/MmapDictProofs.v):
     run isz ops     = Ok (file, handle, effect trace) of MmapedDict(path) on a missing path followed by ops
     spec ops        = the Python dict of the history: d_set in first-write order, last written pair;
                       ReadV k (read_value) inserts (k, zero, zero) when k is new; Reopen changes nothing
     wf_op           = the two packed doubles are 8 bytes each
     total es        = sum of the entry sizes 4 + len k + pad + 16;   8 + total es = the used-bytes header
     enc e           = le32(len k) ++ k ++ 1..8 spaces ++ value ++ timestamp
     Rep isz b h es  = the representation invariant (rep_* fields)
   Constants: isz = _INITIAL_MMAP_SIZE (any value >= 8; 65536 in the source), pg = mmap.PAGESIZE (>= 4).
   Hypothesis `8 + total (spec ops) < 2^31`: struct 'i' (a 2 GiB file raises struct.error). *)
From V Require Import lib.PyBase model.MmapDict proofs.MmapDictProofs.
Open Scope N_scope.

(* After ANY history the three read paths return exactly the written dict, bit for bit and in first-write order:
   read_all_values() on the handle, read_all_values_from_file(), read_value(k) for every stored k; every key occurs
   once; and close + MmapedDict(path) rebuilds exactly the same handle (capacity, used bytes, positions). *)
Theorem C10_abs : forall isz pg, 8 <= isz -> 4 <= pg -> forall ops,
  Forall wf_op ops -> 8 + total (spec ops) < 2147483648 ->
  exists b h tr, run isz ops = Ok (Some b, h, tr) /\ Rep isz b h (spec ops) /\
    read_all b h = Ok (spec ops) /\ read_all_from_file pg b = Ok (spec ops) /\
    (forall k v, In (k, v) (spec ops) -> peek b h k = Ok v) /\
    open_ isz (Some b) = Ok (h, []) /\ NoDup (map fst (spec ops)).
Proof. exact C10_main. Qed.
Print Assumptions C10_abs.

(* The invariant is inductive from ANY represented state (in particular after a reopen, at any point, by a later
   process): continuing with any history keeps it and refines the dict semantics. *)
Theorem C10_continue : forall isz pg, 8 <= isz -> 4 <= pg -> forall ops b h es,
  Rep isz b h es -> Forall wf_op ops -> 8 + total (spec_from es ops) < 2147483648 ->
  exists h' tr b', run_from isz (Some b, h) ops = Ok (Some b', h', tr) /\
    apply_effects (Some b) tr = Ok (Some b') /\ Rep isz b' h' (spec_from es ops).
Proof.
  exact (fun isz pg H1 H2 ops b h es R W B =>
    match run_from_spec isz pg H1 H2 ops b h es R W B with
    | ex_intro _ h' (ex_intro _ tr (ex_intro _ b' (conj A (conj B' (conj C _))))) =>
        ex_intro _ h' (ex_intro _ tr (ex_intro _ b' (conj A (conj B' C))))
    end).
Qed.
Print Assumptions C10_continue.

(* what the invariant says about reading *)
Theorem C10_rep_reads : forall isz pg, 4 <= pg -> forall b h es, Rep isz b h es ->
  read_all b h = Ok es /\ read_all_from_file pg b = Ok es /\ (forall k v, In (k, v) es -> peek b h k = Ok v).
Proof. exact rep_reads. Qed.
Print Assumptions C10_rep_reads.

(* reopen preserves capacity, used bytes and every position: the rebuilt handle IS the old one *)
Theorem C10_reopen : forall isz pg, 8 <= isz -> 4 <= pg -> forall b h es,
  Rep isz b h es -> open_ isz (Some b) = Ok (h, []).
Proof. exact reopen_spec. Qed.
Print Assumptions C10_reopen.

(* a close/reopen anywhere in a history does not change what the history stores *)
Theorem C10_reopen_transparent : forall a b, spec (a ++ Reopen :: b) = spec (a ++ b).
Proof. exact spec_reopen. Qed.
Print Assumptions C10_reopen_transparent.

(* layout: the file is header(used) ++ entries ++ rest; every entry starts 8-aligned, is >= 24 bytes, a multiple of
   8 long, equals enc e byte for byte, and the entries tile [8, used) *)
Theorem C10_layout : forall isz pg, 8 <= isz -> 4 <= pg -> forall b h es, Rep isz b h es ->
  (exists junk, b = header (used h) ++ flat es ++ junk) /\ used h = 8 + total es /\ used h mod 8 = 0 /\
  forall es1 e es2, es = es1 ++ e :: es2 ->
    (8 + total es1) mod 8 = 0 /\ esize (fst e) mod 8 = 0 /\ 24 <= esize (fst e) /\
    slice b (8 + total es1) (esize (fst e)) = enc e /\ 8 + total es1 + esize (fst e) <= used h.
Proof. exact rep_layout. Qed.
Print Assumptions C10_layout.

(* capacity = file length = initial size * 2^j, never below the used bytes *)
Theorem C10_capacity : forall isz b h es, Rep isz b h es ->
  (exists j : N, capacity h = isz * 2 ^ j) /\ len b = capacity h /\ used h <= capacity h.
Proof. exact rep_capacity. Qed.
Print Assumptions C10_capacity.

(* the doubling loop terminates within the fuel the model supplies, for every positive capacity and every need,
   with the least sufficient number j of doublings' worth of truncates *)
Theorem C10_grow_terminates : forall cap need, 0 < cap ->
  exists j : nat, grow (grow_fuel need) cap need = Ok (cap * 2 ^ N.of_nat j, truncs cap j) /\
                  need <= cap * 2 ^ N.of_nat j.
Proof. exact grow_terminates. Qed.
Print Assumptions C10_grow_terminates.

(* the reader's loop terminates on EVERY byte string (corrupt files included): the fuel S (length data) the model
   supplies is never exhausted, for the open-handle path and for the file path *)
Theorem C10_reader_terminates : forall pg b d used,
  read_all_from_file pg b <> Err OutOfFuel /\ read_all_values_raw d used <> Err OutOfFuel.
Proof. exact (fun pg b d used => conj (reader_terminates pg b) (read_all_values_raw_terminates d used)). Qed.
Print Assumptions C10_reader_terminates.

(* the reader inverts the layout for ANY entry list (the parsing lemma) *)
Theorem C10_parse : forall es fuel junk used pos,
  Forall wf_entry es -> Forall (fun e => len (fst e) < 2147483648) es ->
  (length es <= fuel)%nat -> used = pos + total es ->
  read_loop fuel (flat es ++ junk) used pos = Ok (with_pos pos es).
Proof. exact read_loop_parse. Qed.
Print Assumptions C10_parse.

(* ---------- keys that are not well-formed Unicode strs (or not strs at all) ----------
   Vocabulary: a call carries a Python key `pykey` = KStr code-points | KNoEncode (hashable non-str) | KUnhashable;
   key_bytes k = the strict UTF-8 encoding, or the exception write_value/read_value raise for k before any statement
   that changes the handle or the file; lower o = the call with its encoded key, or that exception;
   pstep / prun = one call / a history of calls where a refused call raises and the history goes on;
   accepted ops = the calls that were not refused; outcomes ops = what each call raised (None = nothing). *)

(* WHICH keys are refused: exactly the unhashable ones (TypeError), the hashable non-strs (AttributeError) and the
   strs containing a surrogate code point U+D800..U+DFFF, at any position (UnicodeEncodeError, a ValueError);
   every other str - any length, any mix of 1..4-byte code points - is accepted *)
Theorem C10_refused_keys : forall k e, key_bytes k = Err e <->
  (k = KUnhashable /\ e = TypeError) \/ (k = KNoEncode /\ e = AttributeError) \/
  (exists s, k = KStr s /\ Exists surrogate s /\ e = ValueError).
Proof. exact key_bytes_err. Qed.
Print Assumptions C10_refused_keys.

Theorem C10_wellformed_accepted : forall s, Forall (fun c => ~ surrogate c) s -> exists b, key_bytes (KStr s) = Ok b.
Proof. exact utf8_ok. Qed.
Print Assumptions C10_wellformed_accepted.

(* two accepted strs with the same stored bytes are the same str: the mapping keyed by encoded bytes (model) is the
   mapping keyed by str (Python), and a key read back by the strict decoder is the key that was written *)
Theorem C10_utf8_injective : forall s1 s2 b, utf8 s1 = Ok b -> utf8 s2 = Ok b -> s1 = s2.
Proof. exact utf8_inj. Qed.
Print Assumptions C10_utf8_injective.

(* a refused call is the identity: in EVERY state (represented or not) it raises, performs no file effect and returns
   the handle as it was; from a represented state the three read paths and a later reopen are therefore as before *)
Theorem C10_refused_identity : forall isz w o e, lower o = Err e -> pstep isz w o = Ok (fst w, snd w, [], Some e).
Proof. exact pstep_refused. Qed.
Print Assumptions C10_refused_identity.

Theorem C10_refused_keeps : forall isz pg, 8 <= isz -> 4 <= pg -> forall o e b h es,
  Rep isz b h es -> lower o = Err e ->
  pstep isz (Some b, h) o = Ok (Some b, h, [], Some e) /\
  read_all b h = Ok es /\ read_all_from_file pg b = Ok es /\ (forall k v, In (k, v) es -> peek b h k = Ok v) /\
  open_ isz (Some b) = Ok (h, []).
Proof. exact refused_keeps. Qed.
Print Assumptions C10_refused_keeps.

(* a history with refused calls anywhere IS the history of its accepted calls (same file, handle and effect trace;
   no size or well-formedness hypothesis), and dropping a refused call changes nothing *)
Theorem C10_refused_transparent : forall isz ops,
  prun isz ops = (do t <- run isz (accepted ops); Ok (t, outcomes ops)) /\
  forall a o b e, ops = a ++ o :: b -> lower o = Err e -> accepted ops = accepted (a ++ b).
Proof.
  exact (fun isz ops => conj (prun_accepted isz ops)
           (fun a o b e E H => eq_trans (f_equal accepted E) (accepted_refused a o b e H))).
Qed.
Print Assumptions C10_refused_transparent.

(* C10_abs for callers' histories: whatever mix of accepted and refused calls, the three read paths return exactly
   the dict of the accepted writes, and close + MmapedDict(path) rebuilds the same handle *)
Theorem C10_abs_keys : forall isz pg, 8 <= isz -> 4 <= pg -> forall ops,
  Forall wf_pop ops -> 8 + total (spec (accepted ops)) < 2147483648 ->
  exists b h tr, prun isz ops = Ok (Some b, h, tr, outcomes ops) /\ run isz (accepted ops) = Ok (Some b, h, tr) /\
    Rep isz b h (spec (accepted ops)) /\
    read_all b h = Ok (spec (accepted ops)) /\ read_all_from_file pg b = Ok (spec (accepted ops)) /\
    (forall k v, In (k, v) (spec (accepted ops)) -> peek b h k = Ok v) /\
    open_ isz (Some b) = Ok (h, []) /\ NoDup (map fst (spec (accepted ops))).
Proof. exact keys_main. Qed.
Print Assumptions C10_abs_keys.

(* non-vacuity: 'a', then os.fsdecode(b'caf\xe9') = 'caf\udce9' (refused), a bytes key (refused), a list key
   (refused), a reopen, then 'caf\xe9' (accepted); the file holds exactly the two accepted keys *)
Definition ex_pops : list pop :=
  [PWrite (KStr [97]) [1;0;0;0;0;0;248;127] zero8; PWrite (KStr [99;97;102;56553]) zero8 zero8;
   PReadV KNoEncode; PWrite KUnhashable zero8 zero8; PReopen; PReadV (KStr [56320; 97]);
   PWrite (KStr [99;97;102;233]) [9;9;9;9;9;9;9;9] zero8].
Example C10_keys_example :
  Forall wf_pop ex_pops /\
  outcomes ex_pops = [None; Some ValueError; Some AttributeError; Some TypeError; None; Some ValueError; None] /\
  spec (accepted ex_pops) = [([97], ([1;0;0;0;0;0;248;127], zero8)); ([99;97;102;195;169], ([9;9;9;9;9;9;9;9], zero8))] /\
  match prun 32 ex_pops with
  | Ok (Some b, h, _, x) => read_all b h = Ok (spec (accepted ex_pops)) /\
                            read_all_from_file 4096 b = Ok (spec (accepted ex_pops)) /\ x = outcomes ex_pops
  | _ => False
  end.
Proof.
  split; [repeat constructor|]. split; [vm_compute; reflexivity|]. split; [vm_compute; reflexivity|].
  vm_compute. repeat split; reflexivity.
Qed.

(* non-vacuity: a history with an overwrite, a 4-byte-UTF-8 key, a reopen, a read_value of a new key, NaN-payload and
   -0.0 bit patterns, at initial size 8 (three doublings); hypotheses hold and the file reads back as the dict *)
Definition ex_ops : list op :=
  [Write [97] [1;0;0;0;0;0;248;127] [0;0;0;0;0;0;0;128]; Write [240;159;152;128] [1;2;3;4;5;6;7;8] zero8;
   Reopen; Write [97] [255;255;255;255;255;255;255;255] [9;9;9;9;9;9;9;9]; ReadV [98;98;98;98;98]].
Example C10_example :
  Forall wf_op ex_ops /\ 8 + total (spec ex_ops) < 2147483648 /\
  spec ex_ops = [([97], ([255;255;255;255;255;255;255;255], [9;9;9;9;9;9;9;9]));
                 ([240;159;152;128], ([1;2;3;4;5;6;7;8], zero8)); ([98;98;98;98;98], (zero8, zero8))] /\
  match run 8 ex_ops with
  | Ok (Some b, h, _) => read_all b h = Ok (spec ex_ops) /\ read_all_from_file 4096 b = Ok (spec ex_ops)
                         /\ len b = 128 /\ used h = 96
  | _ => False
  end.
Proof.
  split; [repeat constructor|]. split; [vm_compute; reflexivity|]. split; [vm_compute; reflexivity|].
  vm_compute. repeat split; reflexivity.
Qed.
