(* C08h - multiprocess collection equals the per-mode aggregate over all WORKER HISTORIES.
   Statements only; every proof is `exact <lemma>` (proofs/MultiHistProofs.v, MultiReuseProofs.v, MultiCollectProofs.v).

   props/C08.v states the collector (model/Multiproc.v) over ANY list of files; props/C12.v ties ONE process's
   history to its files.  This file composes them: model/MultiHist.v runs a multi-process history
       steps = HStart p (a worker with pid p starts and constructs the metrics)
             | HCall p now call (worker p performs a metric call - Equiv.mp_step with pid p)
             | HDead p (the worker has ended, the master calls mark_process_dead(p))
   over ONE shared directory, every worker with its own metric objects, all workers constructing the same families
   `fams0` / `metas`.  DIR = the directory after the run; collection = Equiv.collect_mp DIR.

   READ ORDER.  The collector reads the files in the model's DIRECTORY ORDER = the order in which the files were
   created (glob order is not fixed by the library; C08_min_max_order_independent covers permutations for min/max).
   `readers fam0 me` = the pids whose file of the family's type (gauges: and mode) is in DIR, in that order.  Every
   aggregate below is over `readers`, left to right.

   WORKERS AND PID REUSE.  The files of a pid fall in two classes: the live-mode gauge files, which mark_process_dead
   removes, and all other files, which every later process with the same pid re-opens and continues (MmapedValue.__reset
   reads the stored pair).  src_ops p live steps = the calls that explain the files of pid p of a class: ALL calls ever
   made under pid p, by however many successive processes (other files); the calls made since p was last marked dead
   (live-mode gauge files); None = never started (since).  C08h_class_files: after ANY history the files of pid p of a
   class ARE the files of that class of the single-process run Equiv.mp_run of src_ops - successive processes with one
   pid are indistinguishable, in the directory, from one process that made all their calls.  src p f = src_ops for the
   class of family f's file.  mem_child p f lv = the child with label values lv of family f in the IN-MEMORY registry
   Equiv.mem_run (C12's in-process back-end) of src p f, i.e. what the in-process collect of a worker that made those
   calls would report; per_reader f lv sel p = the cells `sel` picks from it ([] when there is no such child).

   DOMAIN (Section hypotheses Hwf Hus Hcalls): C12's domain for every worker (wf_reg; every call has a positive clock
   and is a method call or labels(), no remove()/clear()) and pids without underscore.  Arbitrary mark_process_dead
   points and PID REUSE are inside the domain (a pid may be started any number of times, with or without having been
   marked dead in between).  Not modelled: a process that keeps running after it was marked dead (its calls are
   ignored by the model; the library would write to unlinked files).

   FLOATS.  No float law is needed for counters, summaries, the histogram _sum and the gauge modes: the collector's
   value IS the left-to-right float sum (agg_sum = fold_left fadd _ 0.0), min, max, last, or greatest-set-time fold
   (MultiprocSpec.agg_sum, agg_min, ...) of the workers' in-memory values, bit for bit in the model.  FLT_ne is only used through
   FLT_pos (0.0 < t implies t != 0.0: the clock of call_ok).  The histogram bucket/_count theorem additionally needs
   FLT_trans, FLT_ne (order of the bounds) and FL4 (count cells 0.0+1+...+1 below 2^53 add exactly), as C12_equiv
   does, plus `bounds_not_nan` (b == b for the declared bounds - a hypothesis on the family, not a float law). *)
From V Require Import lib.PyBase model.Metrics model.Equiv model.MultiHist.
From V Require Import proofs.EquivProofs proofs.EquivHistProofs proofs.EquivLenProofs proofs.MultiHistProofs proofs.MultiReuseProofs proofs.MultiCollectProofs.
From V Require model.Multiproc model.Values model.MultiprocSpec.
From Coq Require Import Permutation.
Open Scope N_scope.

Section C08h.
  Variable F : Type.
  Variables fzero fone : F.
  Variable fadd : F -> F -> F.
  Variable fneg : F -> F.
  Variables flt fle feqb : F -> F -> bool.
  Variable of_Z : Z -> res F.
  Variable zlef : Z -> F -> bool.
  Variable parse_le : str -> F.
  Variable fmt_le : F -> str.

  Variable fams0 : mregistry F.            (* the metrics every worker constructs *)
  Variable metas : list fmeta.             (* their multiprocess_mode and help text *)

  Notation fams := (map (shape_of F) fams0).
  Notation RUN steps := (mp_run_multi F fzero fone fadd fneg flt fle feqb of_Z zlef fmt_le fams metas (mh_init F) steps).
  Notation MEM ops := (mem_run F fzero fadd fneg flt fle of_Z zlef metas (mem_init F fams0) ops).
  Notation MP p ops := (mp_run F fzero fone fadd fneg flt fle feqb of_Z zlef fmt_le metas p (mp_init F fzero fmt_le metas p fams0) ops).
  Notation fcount := (fcount F fzero fone fadd).
  Notation agg_sum := (MultiprocSpec.agg_sum F fzero fadd).

  (* ===================== (a) the files of one pid, for ANY interleaving, restarts included =====================
     the directory restricted to the files of pid p (in directory order) is the directory of the run of p's own steps
     alone, and worker p's metric objects are the same: steps of different pids commute on the directory, their files
     are disjoint.  Only hypothesis: pids without underscore (mark_process_dead(q) matches file NAMES). *)
  Theorem C08h_files_of_pid : forall p steps,
    ~ In Multiproc.US p -> Forall (fun st => ~ In Multiproc.US (hpid F st)) steps ->
    fs_of_pid F p (h_fs F (RUN steps)) = h_fs F (RUN (steps_of F p steps))
    /\ d_find str_eqb (h_procs F (RUN steps)) p = d_find str_eqb (h_procs F (RUN (steps_of F p steps))) p.
  Proof. exact (files_of_pid F fzero fone fadd fneg flt fle feqb of_Z zlef fmt_le fams metas). Qed.

  (* ... and when pid p is started at most once, that directory is the single-process directory of C12: Equiv.mp_run of
     the calls of p's process from Equiv.mp_init (life_fs: [] if never started; minus the five live-mode gauge files
     if it was marked dead) *)
  Theorem C08h_files_of_pid_single_process : forall p steps,
    ~ In Multiproc.US p -> Forall (fun st => ~ In Multiproc.US (hpid F st)) steps ->
    (count_str p (starts F steps) <= 1)%nat ->
    fs_of_pid F p (h_fs F (RUN steps))
    = match life_of F p steps with
      | None => []
      | Some (ops, false) => p_fs F (MP p ops)
      | Some (ops, true) => fs_mark_dead F p (p_fs F (MP p ops))
      end.
  Proof. exact (pid_files F fzero fone fadd fneg flt fle feqb of_Z zlef fmt_le fams0 metas). Qed.

  (* mark_process_dead on the model directory is Multiproc.mark_dead (C08_mark_dead_exact) on its listing *)
  Theorem C08h_mark_dead_is_mark_dead : forall p (d : Values.fs F),
    map (fun fc => fname_str (fst fc)) (fs_mark_dead F p d)
    = Multiproc.mark_dead p (map (fun fc : Values.fname * Values.content F => fname_str (fst fc)) d).
  Proof. exact (@fs_mark_dead_names F). Qed.

  (* ===================== (b), (c): the collector over the shared directory ===================== *)
  Variable steps : list (hstep F).
  Hypothesis Hwf : wf_reg F fzero fmt_le metas fams0.
  Hypothesis Hus : Forall (fun st => ~ In Multiproc.US (hpid F st)) steps.
  Hypothesis Hcalls : Forall (hcall_ok F fzero flt) steps.
  Hypothesis FLT_ne : forall a b, flt a b = true -> feqb b a = false.
  Let FLT_pos : forall t, flt fzero t = true -> feqb t fzero = false := fun t H => FLT_ne fzero t H.

  Notation DIR := (DIR F fzero fone fadd fneg flt fle feqb of_Z zlef fmt_le fams0 metas steps).
  Notation COLLECT := (collect_mp F fzero fadd flt feqb parse_le fmt_le DIR).
  Notation SERIES fam0 k := (d_find Multiproc.skey_eqb (mp_family F (f_name fam0) COLLECT) k).
  Notation readers := (readers F fzero fone fadd fneg flt fle feqb of_Z zlef fmt_le fams0 metas steps).
  Notation mem_child := (mem_child F fzero fadd fneg flt fle of_Z zlef fams0 metas steps).
  Notation per_reader := (per_reader F fzero fadd fneg flt fle of_Z zlef fams0 metas steps).
  Notation holders := (holders F fzero fone fadd fneg flt fle feqb of_Z zlef fmt_le fams0 metas steps).
  Notation stored_ts := (stored_ts F fzero fone fadd fneg flt fle feqb of_Z zlef fmt_le fams0 metas steps).
  Notation src := (src F fams0 metas steps).
  Notation hwf := (hwf F fzero flt fle parse_le fmt_le).

  Theorem C08h_dir_is_the_run : DIR = h_fs F (RUN steps).
  Proof. reflexivity. Qed.

  (* no file name occurs twice in the shared directory *)
  Theorem C08h_directory_files_distinct : NoDup (map fst DIR).
  Proof. exact (dir_nodup F fzero fone fadd fneg flt fle feqb of_Z zlef fmt_le fams0 metas steps Hwf Hus Hcalls FLT_pos). Qed.

  (* PID REUSE: the files of pid p of a class (live = the live-mode gauge files, else all other files) after ANY history *)
  Theorem C08h_class_files : forall p live, ~ In Multiproc.US p ->
    filter (fun fc : Values.fname * Values.content F => str_eqb (snd (fst fc)) p && Bool.eqb (live_prefix (fst (fst fc))) live) DIR
    = match src_ops F p live steps with
      | Some ops => filter (fun fc : Values.fname * Values.content F => str_eqb (snd (fst fc)) p && Bool.eqb (live_prefix (fst (fst fc))) live)
                           (p_fs F (MP p ops))
      | None => []
      end.
  Proof. exact (class_dir F fzero fone fadd fneg flt fle feqb of_Z zlef fmt_le fams0 metas steps Hwf Hus). Qed.

  (* the family of a registered metric: C08's specification (C08_aggregate_refines_spec) applied to the samples of the
     family's own files, file by file in directory order; files of other types/modes contribute nothing *)
  Theorem C08h_family_refines_spec : forall f fam0 me k, nth_error fams0 f = Some fam0 -> nth_error metas f = Some me ->
    SERIES fam0 k
    = MultiprocSpec.spec_series F fzero fadd flt feqb parse_le fmt_le (typ_of (f_kind fam0)) (fmode (f_kind fam0) me) (f_name fam0)
        (flat_map (file_samples F fzero fam0 me) DIR) k.
  Proof. exact (shared_series F fzero fone fadd fneg flt fle feqb of_Z zlef fmt_le fams0 metas steps Hwf Hus Hcalls FLT_pos parse_le). Qed.

  (* the family itself: reported exactly once, with the declared help text and type, iff some file of the directory holds
     an entry of it (help text, type preserved; no family duplicated, none reported under another help or type) *)
  Theorem C08h_family_reported : forall f fam0 me, nth_error fams0 f = Some fam0 -> nth_error metas f = Some me ->
    match flat_map (file_samples F fzero fam0 me) DIR with
    | [] => forall h t ss, ~ In (f_name fam0, h, t, ss) COLLECT
    | _ :: _ => exists ss, In (f_name fam0, fm_help me, typ_of (f_kind fam0), ss) COLLECT
                  /\ NoDup (map fst ss)
                  /\ forall h t ss', In (f_name fam0, h, t, ss') COLLECT -> (h, t, ss') = (fm_help me, typ_of (f_kind fam0), ss)
    end.
  Proof. exact (shared_family F fzero fone fadd fneg flt fle feqb of_Z zlef fmt_le fams0 metas steps Hwf Hus Hcalls FLT_pos parse_le). Qed.

  (* ----- who is read ----- *)
  Theorem C08h_readers_distinct : forall fam0 me, NoDup (readers fam0 me).
  Proof. exact (readers_nodup F fzero fone fadd fneg flt fle feqb of_Z zlef fmt_le fams0 metas steps Hwf Hus Hcalls FLT_pos). Qed.

  (* nothing dropped: a pid whose explaining run holds child lv of family f is read - dead workers included; for a gauge
     of a live* mode the explaining run is the one since the pid was last marked dead, so a dead pid holds nothing *)
  Theorem C08h_readers_complete : forall f fam0 me p lv ch, nth_error fams0 f = Some fam0 -> nth_error metas f = Some me ->
    mem_child p f lv = Some ch -> In p (readers fam0 me).
  Proof. exact (readers_complete F fzero fone fadd fneg flt fle feqb of_Z zlef fmt_le fams0 metas steps Hwf Hus Hcalls FLT_pos). Qed.

  (* nothing invented: a pid that is read was started - for a live* gauge: since it was last marked dead *)
  Theorem C08h_readers_sound : forall f fam0 me p, nth_error fams0 f = Some fam0 -> nth_error metas f = Some me ->
    In p (readers fam0 me) -> src p f <> None.
  Proof. exact (readers_sound F fzero fone fadd fneg flt fle feqb of_Z zlef fmt_le fams0 metas steps Hwf Hus). Qed.

  (* which calls explain family f's file of pid p: all calls ever made under p, or (live* gauges) those since p was last
     marked dead *)
  Theorem C08h_src_is_src_ops : forall f fam0 me p, nth_error fams0 f = Some fam0 -> nth_error metas f = Some me ->
    src p f = src_ops F p (live_fam (f_kind fam0) me) steps.
  Proof. intros f fam0 me p Hf Hm. unfold MultiCollectProofs.src. rewrite Hf, Hm. reflexivity. Qed.

  (* ----- (b) counters: the float sum, in read order, of the workers' in-memory values (None = not reported) ----- *)
  Theorem C08_histories_counter : forall f fam0 me lv,
    nth_error fams0 f = Some fam0 -> nth_error metas f = Some me -> f_kind fam0 = KCounter ->
    length lv = length (f_labelnames fam0) ->
    SERIES fam0 (f_name fam0 ++ SUF_total, lab (f_labelnames fam0) lv)
    = agg_sum (flat_map (per_reader f lv (@ctr_val F)) (readers fam0 me)).
  Proof. exact (counter_series F fzero fone fadd fneg flt fle feqb of_Z zlef fmt_le fams0 metas steps Hwf Hus Hcalls FLT_pos parse_le). Qed.

  (* ----- summaries: _count (cells 0.0 + 1 + ... + 1 = fcount n) and _sum ----- *)
  Theorem C08_histories_summary : forall f fam0 me lv,
    nth_error fams0 f = Some fam0 -> nth_error metas f = Some me -> f_kind fam0 = KSummary ->
    length lv = length (f_labelnames fam0) ->
    SERIES fam0 (f_name fam0 ++ SUF_count, lab (f_labelnames fam0) lv)
    = agg_sum (flat_map (per_reader f lv (smy_count F fzero fone fadd)) (readers fam0 me))
    /\ SERIES fam0 (f_name fam0 ++ SUF_sum, lab (f_labelnames fam0) lv)
       = agg_sum (flat_map (per_reader f lv (@smy_sum F)) (readers fam0 me)).
  Proof. exact (summary_series F fzero fone fadd fneg flt fle feqb of_Z zlef fmt_le fams0 metas steps Hwf Hus Hcalls FLT_pos parse_le). Qed.

  (* ----- histograms: _sum ----- *)
  Theorem C08_histories_histogram_sum : forall f fam0 me lv,
    nth_error fams0 f = Some fam0 -> nth_error metas f = Some me -> f_kind fam0 = KHistogram -> hwf fam0 ->
    length lv = length (f_labelnames fam0) ->
    SERIES fam0 (f_name fam0 ++ SUF_sum, lab (f_labelnames fam0) lv)
    = agg_sum (flat_map (per_reader f lv (@hst_sum F)) (readers fam0 me)).
  Proof. exact (hist_sum_series F fzero fone fadd fneg flt fle feqb of_Z zlef fmt_le fams0 metas steps Hwf Hus Hcalls FLT_pos parse_le). Qed.

  (* ----- histograms: buckets merged per bound, made cumulative, _count = the +Inf bucket -----
     holders f lv fam0 me = the (non-cumulative) bucket count cells of child lv in every worker that is read and holds
     it, in read order; accum 0 cs = the cumulative counts Histogram._child_samples computes in process, total cs its
     _count.  The collector's i-th bucket series is the float sum over the workers of their in-memory cumulative i-th
     bucket values, its _count the float sum of their _counts.  FL4's domain: fewer than 2^53 steps in the whole
     multi-process history (C08h_cells_small). *)
  Hypothesis FLT_trans : forall a b c, flt a b = true -> flt b c = true -> flt a c = true.
  Hypothesis FL4 : forall a b, a + b < 2 ^ 53 -> fadd (fcount a) (fcount b) = fcount (a + b).

  Theorem C08h_cells_small : forall f fam0 me lv, N.of_nat (length steps) < 2 ^ 53 ->
    nsum (map nsum (holders f lv fam0 me)) < 2 ^ 53.
  Proof. exact (holders_small F fzero fone fadd fneg flt fle feqb of_Z zlef fmt_le fams0 metas steps Hwf Hus Hcalls FLT_pos parse_le). Qed.

  Theorem C08_histories_histogram_buckets : forall f fam0 me lv,
    nth_error fams0 f = Some fam0 -> nth_error metas f = Some me -> f_kind fam0 = KHistogram -> hwf fam0 ->
    (forall b, In b (f_bounds fam0) -> feqb b b = true) ->                 (* bounds_not_nan *)
    length lv = length (f_labelnames fam0) ->
    N.of_nat (length steps) < 2 ^ 53 ->
    (forall i b, nth_error (f_bounds fam0) i = Some b ->
       SERIES fam0 (MultiprocSpec.bucket_key F fmt_le (f_name fam0) (lab (f_labelnames fam0) lv) b)
       = agg_sum (map (fun cs => fcount (nth i (accum 0 cs) 0)) (holders f lv fam0 me)))
    /\ SERIES fam0 (MultiprocSpec.count_key (f_name fam0) (lab (f_labelnames fam0) lv))
       = agg_sum (map (fun cs => fcount (total cs)) (holders f lv fam0 me)).
  Proof.
    exact (fun f fam0 me lv Hf Hm Hk Hw Hr Hlv Hlen =>
             hist_bucket_series_all F fzero fone fadd fneg flt fle feqb of_Z zlef fmt_le fams0 metas steps Hwf Hus Hcalls FLT_pos
               parse_le FLT_trans FLT_ne FL4 f fam0 me lv Hf Hm Hk Hw Hr Hlv
               (holders_small F fzero fone fadd fneg flt fle feqb of_Z zlef fmt_le fams0 metas steps Hwf Hus Hcalls FLT_pos
                  parse_le f fam0 me lv Hlen)).
  Qed.

  (* ----- (c) gauges, per mode; live* modes: a pid marked dead and not started since is not among the readers, and a pid
     started again contributes only what it did since (C08h_readers_sound, C08h_src_is_src_ops) ----- *)
  Theorem C08_histories_gauge_min : forall f fam0 me lv,
    nth_error fams0 f = Some fam0 -> nth_error metas f = Some me -> f_kind fam0 = KGauge ->
    length lv = length (f_labelnames fam0) ->
    Multiproc.is_mode Multiproc.M_min Multiproc.M_livemin (fm_mode me) = true ->
    SERIES fam0 (f_name fam0, lab (f_labelnames fam0) lv)
    = MultiprocSpec.agg_min F flt (flat_map (per_reader f lv (@gge_val F)) (readers fam0 me)).
  Proof. exact (gauge_min F fzero fone fadd fneg flt fle feqb of_Z zlef fmt_le fams0 metas steps Hwf Hus Hcalls FLT_pos parse_le). Qed.

  Theorem C08_histories_gauge_max : forall f fam0 me lv,
    nth_error fams0 f = Some fam0 -> nth_error metas f = Some me -> f_kind fam0 = KGauge ->
    length lv = length (f_labelnames fam0) ->
    Multiproc.is_mode Multiproc.M_min Multiproc.M_livemin (fm_mode me) = false ->
    Multiproc.is_mode Multiproc.M_max Multiproc.M_livemax (fm_mode me) = true ->
    SERIES fam0 (f_name fam0, lab (f_labelnames fam0) lv)
    = MultiprocSpec.agg_max F flt (flat_map (per_reader f lv (@gge_val F)) (readers fam0 me)).
  Proof. exact (gauge_max F fzero fone fadd fneg flt fle feqb of_Z zlef fmt_le fams0 metas steps Hwf Hus Hcalls FLT_pos parse_le). Qed.

  Theorem C08_histories_gauge_sum : forall f fam0 me lv,
    nth_error fams0 f = Some fam0 -> nth_error metas f = Some me -> f_kind fam0 = KGauge ->
    length lv = length (f_labelnames fam0) ->
    Multiproc.is_mode Multiproc.M_min Multiproc.M_livemin (fm_mode me) = false ->
    Multiproc.is_mode Multiproc.M_max Multiproc.M_livemax (fm_mode me) = false ->
    Multiproc.is_mode Multiproc.M_sum Multiproc.M_livesum (fm_mode me) = true ->
    SERIES fam0 (f_name fam0, lab (f_labelnames fam0) lv)
    = agg_sum (flat_map (per_reader f lv (@gge_val F)) (readers fam0 me)).
  Proof. exact (gauge_sum F fzero fone fadd fneg flt fle feqb of_Z zlef fmt_le fams0 metas steps Hwf Hus Hcalls FLT_pos parse_le). Qed.

  (* mostrecent: the fold `a strictly later set-time replaces` (agg_mr) over (in-memory value, stored set-time) of the
     workers in read order; the stored set-time of a worker's series is positive exactly when its child accepted a
     set(), else 0.0 (C08h_set_time): a worker whose child was never set cannot win, and a series nobody set is not
     reported *)
  Theorem C08_histories_gauge_mostrecent : forall f fam0 me lv,
    nth_error fams0 f = Some fam0 -> nth_error metas f = Some me -> f_kind fam0 = KGauge ->
    length lv = length (f_labelnames fam0) ->
    Multiproc.is_mode Multiproc.M_min Multiproc.M_livemin (fm_mode me) = false ->
    Multiproc.is_mode Multiproc.M_max Multiproc.M_livemax (fm_mode me) = false ->
    Multiproc.is_mode Multiproc.M_sum Multiproc.M_livesum (fm_mode me) = false ->
    Multiproc.is_mode Multiproc.M_mostrecent Multiproc.M_livemostrecent (fm_mode me) = true ->
    SERIES fam0 (f_name fam0, lab (f_labelnames fam0) lv)
    = MultiprocSpec.agg_mr F fzero flt feqb
        (flat_map (fun p => per_reader f lv (fun ch => map (fun v => (v, stored_ts fam0 me lv p)) (gge_val F ch)) p) (readers fam0 me)).
  Proof. exact (gauge_mostrecent F fzero fone fadd fneg flt fle feqb of_Z zlef fmt_le fams0 metas steps Hwf Hus Hcalls FLT_pos parse_le). Qed.

  Theorem C08h_set_time : forall f fam0 me lv p v, nth_error fams0 f = Some fam0 -> nth_error metas f = Some me ->
    f_kind fam0 = KGauge -> In p (readers fam0 me) -> mem_child p f lv = Some (Gge v) -> is_mr (fm_mode me) = true ->
    exists ops, src p f = Some ops
      /\ if in_log (m_log F (MEM ops)) f lv then flt fzero (stored_ts fam0 me lv p) = true else stored_ts fam0 me lv p = fzero.
  Proof. exact (stored_ts_spec F fzero fone fadd fneg flt fle feqb of_Z zlef fmt_le fams0 metas steps Hwf Hus Hcalls FLT_pos). Qed.

  (* all / liveall: one series per pid, carrying that worker's in-memory value (agg_last of at most one value) *)
  Theorem C08_histories_gauge_all : forall f fam0 me lv p0,
    nth_error fams0 f = Some fam0 -> nth_error metas f = Some me -> f_kind fam0 = KGauge ->
    length lv = length (f_labelnames fam0) ->
    Multiproc.is_mode Multiproc.M_min Multiproc.M_livemin (fm_mode me) = false ->
    Multiproc.is_mode Multiproc.M_max Multiproc.M_livemax (fm_mode me) = false ->
    Multiproc.is_mode Multiproc.M_sum Multiproc.M_livesum (fm_mode me) = false ->
    Multiproc.is_mode Multiproc.M_mostrecent Multiproc.M_livemostrecent (fm_mode me) = false ->
    SERIES fam0 (f_name fam0, lab (f_labelnames fam0) lv ++ [(Multiproc.S_pid, p0)])
    = MultiprocSpec.agg_last F (if mem_str p0 (readers fam0 me) then per_reader f lv (@gge_val F) p0 else []).
  Proof. exact (gauge_all F fzero fone fadd fneg flt fle feqb of_Z zlef fmt_le fams0 metas steps Hwf Hus Hcalls FLT_pos parse_le). Qed.
End C08h.

Print Assumptions C08h_files_of_pid.
Print Assumptions C08h_files_of_pid_single_process.
Print Assumptions C08h_mark_dead_is_mark_dead.
Print Assumptions C08h_dir_is_the_run.
Print Assumptions C08h_directory_files_distinct.
Print Assumptions C08h_class_files.
Print Assumptions C08h_src_is_src_ops.
Print Assumptions C08h_family_refines_spec.
Print Assumptions C08h_family_reported.
Print Assumptions C08h_readers_distinct.
Print Assumptions C08h_readers_complete.
Print Assumptions C08h_readers_sound.
Print Assumptions C08_histories_counter.
Print Assumptions C08_histories_summary.
Print Assumptions C08_histories_histogram_sum.
Print Assumptions C08h_cells_small.
Print Assumptions C08_histories_histogram_buckets.
Print Assumptions C08_histories_gauge_min.
Print Assumptions C08_histories_gauge_max.
Print Assumptions C08_histories_gauge_sum.
Print Assumptions C08_histories_gauge_mostrecent.
Print Assumptions C08h_set_time.
Print Assumptions C08_histories_gauge_all.

(* ===== non-vacuity (exact integer arithmetic): three workers 1, 22, 3 over a counter c, a livesum gauge g{l}, a
   histogram h (bounds 0, 5, +Inf) and a max gauge m; worker 3 starts late, worker 22 is marked dead and its later call
   is ignored, then a NEW process with pid 22 starts (pid reuse).  The hypotheses hold; the collector computes:
   c_total 2 + (3+10) + 0 = 15 (the new process 22 continues the counter file of the old one); g{l=x} 5 + 1 + 9 = 15 (the old 22's 7
   went with its livesum file, the new one set 9); h: _sum 12, buckets 1, 2, 3, _count 3 (observations 3, 9, 0 in three
   different workers); m max(-1, 4, 0) = 4 (the dead worker's max file stays).  The readers of c are [1; 22; 3], of g
   [1; 3; 22] (the re-created livesum file of 22 comes last). ===== *)
Import MetricsProofs.Toy Toy12 ToyMulti.
Example C08h_example :
  wf_reg Z 0%Z tfmt mmetas mfams
  /\ (forall fam0, In fam0 mfams -> f_kind fam0 = KHistogram -> hwf Z 0%Z Z.ltb Z.leb tparse tfmt fam0)
  /\ Forall (fun st => ~ In Multiproc.US (hpid Z st)) msteps /\ Forall (hcall_ok Z 0%Z Z.ltb) msteps
  /\ starts Z msteps = [P1; P2; P3; P2] /\ N.of_nat (length msteps) < 2 ^ 53
  /\ (map snd (mseries (s2l "c")), map snd (mseries (s2l "g")), map snd (mseries (s2l "h")), map snd (mseries (s2l "m")))
     = ([15%Z], [15%Z], [12%Z; 1%Z; 2%Z; 3%Z; 3%Z], [4%Z])
  /\ MultiCollectProofs.readers Z 0%Z 1%Z Z.add Z.opp Z.ltb Z.leb Z.eqb t_of_Z Z.leb tfmt mfams mmetas msteps
       (mkMFamily KCounter (s2l "c") [] [] [] (Ctr (CF 0%Z)) []) meta0 = [P1; P2; P3]
  /\ MultiCollectProofs.readers Z 0%Z 1%Z Z.add Z.opp Z.ltb Z.leb Z.eqb t_of_Z Z.leb tfmt mfams mmetas msteps
       (mkMFamily KGauge (s2l "g") [s2l "l"] [] [] (Gge 0%Z) []) (mkMeta Multiproc.M_livesum (s2l "doc")) = [P1; P3; P2]
  /\ option_map (@length _) (src_ops Z P2 false msteps) = Some 6%nat /\ option_map (@length _) (src_ops Z P2 true msteps) = Some 2%nat.
Proof.
  split; [exact m_wf|split; [exact m_hwf|split; [exact m_nous|split; [exact m_calls|split; [reflexivity|split; [reflexivity|]]]]]].
  vm_compute. repeat split.
Qed.
