(* C15 - The OpenMetrics parser enforces each of its validation rules on every instance.
   Statements only.  Model: model/OMParser.v (om_parse = the line loop of text_fd_to_metric_families);
   proofs: proofs/OMProofs.v.  Every theorem holds for ARBITRARY oracles (int()/float(), number comparison,
   re classes) and for both settings of every repair flag: the Section variables are universally
   quantified, no platform fact is assumed.  `is_err r` = exists e, r = Err e; with C14 (totality) e is
   ValueError.

   Shape.  Document-structure rules (EOF, blank lines) are stated on the line list of the document.
   Histogram rules are stated on the sample list handed to _check_histogram, for every list, every position
   and every group, and lifted to documents by C15_offending_scan_is_final / C15_offending_family_at_end:
   once the family in progress has recorded an offending pair nothing later in the document repairs it.
   Per-sample rules are stated on the check functions for every family name / sample, and lifted to lines by
   C15_sample_line_rejected and to documents by C15_failing_line_rejects_document. *)
From V Require Import lib.PyBase lib.PyStr model.Validation model.Expo model.TextParser model.OMParser proofs.OMProofs.
Open Scope N_scope.

Section C15.
  Variable legacy guard_fix fix_nhkeys fix_nhsfx fix_tsmix fix_isnan fix_unit fix_quote fix_tsexp fix_sname : bool.
  Variable NUM : Type.
  Variable parse_num parse_float : str -> option NUM.
  Variable parse_int : str -> option Z.
  Variable num_lt num_eqb : NUM -> NUM -> bool.
  Variable num_isinf num_integral num_huge : NUM -> bool.
  Variable num_zero num_one num_inf : NUM.
  Variable ts_float : Z -> Z -> option NUM.
  Variable is_word is_space_re is_digit_re : char -> bool.

  Notation parse := (om_parse legacy guard_fix fix_nhkeys fix_nhsfx fix_tsmix fix_isnan fix_unit fix_quote fix_tsexp fix_sname
                      NUM parse_num parse_float parse_int num_lt num_eqb num_isinf num_integral num_huge
                      num_zero num_one num_inf ts_float is_word is_space_re is_digit_re).
  Notation step := (om_step_line legacy guard_fix fix_nhkeys fix_nhsfx fix_tsmix fix_isnan fix_unit fix_quote fix_tsexp fix_sname
                      NUM parse_num parse_float parse_int num_lt num_eqb num_isinf num_integral num_huge
                      num_zero num_one num_inf ts_float is_word is_space_re is_digit_re).
  Notation prefix := (om_prefix legacy guard_fix fix_nhkeys fix_nhsfx fix_tsmix fix_isnan fix_unit fix_quote fix_tsexp fix_sname
                      NUM parse_num parse_float parse_int num_lt num_eqb num_isinf num_integral num_huge
                      num_zero num_one num_inf ts_float is_word is_space_re is_digit_re).
  Notation sample_line := (om_sample_line legacy guard_fix fix_nhkeys fix_nhsfx fix_tsmix fix_isnan fix_quote fix_tsexp fix_sname
                      NUM parse_num parse_float parse_int num_lt num_eqb num_isinf num_integral num_huge
                      num_zero num_one num_inf ts_float is_word is_space_re is_digit_re).
  Notation read_sample := (om_read_sample legacy guard_fix fix_nhkeys fix_nhsfx fix_quote fix_tsexp fix_sname NUM parse_num parse_float
                             parse_int num_eqb num_isinf is_word is_space_re is_digit_re).
  Notation check_hist := (om_check_histogram NUM parse_float num_lt num_eqb num_zero num_inf).
  Notation hist_run := (om_check_hist_run NUM parse_float num_lt num_eqb num_zero num_inf).
  Notation post_checks := (om_post_checks fix_isnan NUM num_lt num_eqb num_huge num_zero num_one).
  Notation pre_checks := (om_pre_checks NUM parse_float num_lt num_eqb num_integral num_zero num_one num_inf).
  Notation group_step := (om_group_step fix_tsmix NUM num_lt num_eqb ts_float).
  Notation num_le := (om_num_le NUM num_lt num_eqb).
  Notation ts_eqb := (om_ts_eqb NUM num_eqb).
  Notation bucket_of := (is_bucket_of NUM parse_float).
  Notation BadRunS := (BadRun NUM parse_float num_lt num_eqb num_zero num_inf).
  Notation BadFamilyS := (BadFamily NUM parse_float num_lt num_eqb num_zero num_inf).
  Notation hinit := {| hs_group := None; hs_ts := None; hs_hv := @None (om_hv NUM) |}.

  (* ---- document structure ---- *)
  (* a blank line anywhere (also after # EOF) *)
  Theorem C15_blank_line : forall text, In [] (om_lines text) -> is_err (parse text).
  Proof. intros text H. unfold om_parse. apply blank_line_rejected. exact H. Qed.

  (* no '# EOF' line at all (the empty document included) *)
  Theorem C15_eof_missing : forall text, ~ In OM_EOF (om_lines text) -> is_err (parse text).
  Proof. intros text H. unfold om_parse. apply eof_missing_rejected. exact H. Qed.

  (* any line after a '# EOF' line: content after it, or a repeated '# EOF' *)
  Theorem C15_eof_not_last : forall text a l b, om_lines text = a ++ OM_EOF :: l :: b -> is_err (parse text).
  Proof. intros text a l b H. unfold om_parse. rewrite H. apply content_after_eof_rejected. Qed.

  (* a line on which the step fails in the state its prefix leads to rejects the document, wherever it stands *)
  Theorem C15_failing_line_rejects_document : forall text a l b,
    om_lines text = a ++ l :: b ->
    (forall st acc, prefix om_st_init a [] = Ok (st, acc) -> is_err (step st l)) ->
    is_err (parse text).
  Proof. intros text a l b H K. unfold om_parse. rewrite H. apply run_step_err_at. exact K. Qed.

  (* ---- histogram groups: _check_histogram on EVERY sample list, position and group ---- *)
  (* bounds not strictly increasing (b2 <= b1), or counts not cumulative (v2 < v1), on two adjacent buckets of
     one group: the scan fails from any state, i.e. whatever precedes and follows *)
  Theorem C15_hist_adjacent_buckets : forall name pre s1 s2 post l1 l2 b1 b2 st,
    bucket_of name s1 l1 b1 -> bucket_of name s2 l2 b2 ->
    om_dict_eqb (d_remove str_eqb l2 OM_le) (d_remove str_eqb l1 OM_le) = true ->
    ts_eqb (os_ts s2) (os_ts s1) = true ->
    num_le b2 b1 = true
    \/ (match os_value s1, os_value s2 with Some v1, Some v2 => num_lt v2 v1 = true | _, _ => True end) ->
    is_err (hist_run name st (pre ++ s1 :: s2 :: post)).
  Proof. intros. eapply hist_adjacent_buckets_rejected; eassumption. Qed.

  (* a group whose last bucket is not +Inf: the last group of the family ... *)
  Theorem C15_hist_no_inf_last_group : forall name pre s l b,
    bucket_of name s l b -> num_eqb b num_inf = false -> is_err (check_hist (pre ++ [s]) name).
  Proof. intros. eapply hist_last_bucket_not_inf; eassumption. Qed.

  (* ... and any other group: the finite bucket is followed by a sample of another group or timestamp *)
  Theorem C15_hist_no_inf_any_group : forall name pre s l b nxt post st,
    bucket_of name s l b -> num_eqb b num_inf = false ->
    skipn (length name) (os_name nxt) <> [] ->
    (forall g, om_group_for_sample nxt name OM_histogram = Ok g ->
               om_optdict_eqb g (Some (d_remove str_eqb l OM_le)) = false \/ ts_eqb (os_ts nxt) (os_ts s) = false) ->
    is_err (hist_run name st (pre ++ s :: nxt :: post)).
  Proof. intros. eapply hist_bucket_not_inf_then_switch; eassumption. Qed.

  (* _count / _gcount different from the last bucket of its group (the last two samples of the family).
     PARTIAL: the count is adjacent to the bucket and the group is the last one; other placements of _count
     inside the group are covered by the correspondence run only. *)
  Theorem C15_hist_count_mismatch_partial : forall name pre sb lb b vb sc lc c,
    bucket_of name sb lb b -> os_value sb = Some vb -> is_count_of NUM name sc lc c ->
    om_dict_eqb lc (d_remove str_eqb lb OM_le) = true -> ts_eqb (os_ts sc) (os_ts sb) = true ->
    num_eqb vb c = false ->
    is_err (check_hist (pre ++ [sb; sc]) name).
  Proof. intros. eapply hist_count_mismatch_last; eassumption. Qed.

  (* lifting to documents: a histogram family whose recorded samples already fail the scan stays failing
     through every later line (no line can repair or drop it), so the document is rejected *)
  Theorem C15_offending_scan_is_final : forall text pre post st acc,
    om_lines text = pre ++ post -> prefix om_st_init pre [] = Ok (st, acc) -> BadRunS st -> is_err (parse text).
  Proof. intros text pre post st acc H E B. unfold om_parse. rewrite H. eapply BadRun_document; eassumption. Qed.

  (* a histogram family whose samples fail the end-of-group checks when the document ends *)
  Theorem C15_offending_family_at_end : forall text st acc,
    prefix om_st_init (om_lines text) [] = Ok (st, acc) -> BadFamilyS st -> is_err (parse text).
  Proof. intros text st acc E B. unfold om_parse. eapply BadFamily_document_end; eassumption. Qed.

  (* ---- per-sample rules: for every family name, type and sample ---- *)
  Theorem C15_counterlike_nan : forall name typ s v,
    os_value s = Some v -> om_num_nan NUM num_eqb v = true ->
    mem_str (skipn (length name) (os_name s)) [OM_total; OM_sum; OM_count; OM_bucket; OM_gcount; OM_gsum] = true ->
    is_err (post_checks name typ s).
  Proof. intros. eapply post_nan_rejected; eassumption. Qed.

  Theorem C15_counterlike_negative : forall name typ s v,
    os_value s = Some v -> num_lt v num_zero = true ->
    mem_str (skipn (length name) (os_name s)) [OM_total; OM_sum; OM_count; OM_bucket; OM_gcount] = true ->
    is_err (post_checks name typ s).
  Proof. intros. eapply post_negative_rejected; eassumption. Qed.

  Theorem C15_info_value : forall name s,
    (match os_value s with Some v => num_eqb v num_one = false | None => True end) ->
    is_err (post_checks name (Some OM_info) s).
  Proof. intros. eapply post_info_value_rejected; eassumption. Qed.

  Theorem C15_stateset_value : forall name s,
    (match os_value s with Some v => num_eqb v num_zero = false /\ num_eqb v num_one = false | None => True end) ->
    is_err (post_checks name (Some OM_stateset) s).
  Proof. intros. eapply post_stateset_value_rejected; eassumption. Qed.

  Theorem C15_stateset_label : forall name s l,
    os_labels s = Some l -> d_mem str_eqb l name = false -> is_err (pre_checks name (Some OM_stateset) s).
  Proof. intros. eapply pre_stateset_label_rejected; eassumption. Qed.

  (* quantile label missing, not a number, or outside [0, 1] *)
  Theorem C15_quantile_range : forall name s l,
    os_name s = name -> os_labels s = Some l ->
    (match d_find str_eqb l OM_quantile with
     | None => True
     | Some qv => match parse_float qv with
                  | None => True
                  | Some q => num_le num_zero q && num_le q num_one = false
                  end
     end) ->
    is_err (pre_checks name (Some OM_summary) s).
  Proof. intros. eapply pre_quantile_rejected; eassumption. Qed.

  Theorem C15_quantile_value_negative : forall name s v,
    os_name s = name -> os_value s = Some v -> num_lt v num_zero = true ->
    is_err (post_checks name (Some OM_summary) s).
  Proof. intros. eapply post_quantile_negative_rejected; eassumption. Qed.

  (* bucket / _count / _gcount values that are not integral, in a family of any type *)
  Theorem C15_count_integral : forall name typ s v,
    os_name s = name ++ OM_bucket \/ os_name s = name ++ OM_count \/ os_name s = name ++ OM_gcount ->
    os_value s = Some v -> num_integral v = false -> is_err (pre_checks name typ s).
  Proof. intros. eapply pre_nonintegral_rejected; eassumption. Qed.

  (* a bucket without le, or with le="NaN" *)
  Theorem C15_bucket_le : forall name typ s l,
    os_name s = name ++ OM_bucket -> os_labels s = Some l ->
    (match d_find str_eqb l OM_le with None => True | Some v => v = OM_NaN end) ->
    is_err (pre_checks name typ s).
  Proof. intros. eapply pre_bucket_le_rejected; eassumption. Qed.

  (* an exemplar on anything but a histogram/gaugehistogram bucket or a counter total *)
  Theorem C15_exemplar_ineligible : forall name typ s e,
    os_ex s = Some e -> exemplar_eligible NUM typ s = false -> is_err (post_checks name typ s).
  Proof. intros. eapply post_exemplar_rejected; eassumption. Qed.

  (* exemplar label sets over 128 characters are never returned by the sample reader *)
  Theorem C15_exemplar_length : forall text v ts ex,
    om_parse_remaining_text legacy guard_fix fix_quote fix_tsexp NUM parse_num parse_float parse_int num_eqb num_isinf text
      = Ok (v, ts, Some ex) -> (om_sum_len (oe_labels NUM ex) <= 128)%nat.
  Proof. intros. eapply exemplar_length_bound; eassumption. Qed.

  (* timestamps present on only part of a group, or going backwards inside a group (not for info) *)
  Theorem C15_group_timestamps : forall st name s gd g0,
    om_group_for_sample s name (match st_typ st with Some t => t | None => [] end) = Ok (Some gd) ->
    st_group st = Some g0 -> om_kvs_eqb (sort_kv gd) g0 = true ->
    (match os_ts s, st_gts st with
     | None, Some _ | Some _, None => True
     | Some b, Some a => om_ts_gt fix_tsmix NUM num_lt ts_float a b = Ok true
                         /\ om_typ_is (st_typ st) OM_info = false
     | None, None => False
     end) ->
    is_err (group_step st name s).
  Proof. intros. eapply group_step_ts_rejected; eassumption. Qed.

  (* two Timestamp(sec, nsec) values are ordered exactly, at every magnitude: no rounding through a double, so a step
     back of one nanosecond at an epoch-sized second, or of one second beyond 2^53, counts as going backwards *)
  Theorem C15_timestamp_order_exact : forall s1 n1 s2 n2,
    om_ts_gt fix_tsmix NUM num_lt ts_float (OTs s1 n1) (OTs s2 n2)
    = Ok ((s2 <? s1)%Z || ((s1 =? s2)%Z && (n2 <? n1)%Z)).
  Proof.
    intros. cbn. destruct (s1 =? s2)%Z eqn:E.
    - apply Z.eqb_eq in E. subst. rewrite Z.ltb_irrefl. reflexivity.
    - cbn. rewrite orb_false_r. reflexivity.
  Qed.

  (* lifting a failed per-sample check to the line: the sample stays in the family in progress *)
  Theorem C15_sample_line_rejected : forall st line s name,
    read_sample (st_typ st) line = Ok (s, false) ->
    mem_str (os_name s) (st_allowed st) = true -> st_name st = Some name ->
    is_err (pre_checks name (st_typ st) s) \/ is_err (post_checks name (st_typ st) s) ->
    is_err (sample_line st line).
  Proof. intros. eapply sample_line_checks_err; eassumption. Qed.
End C15.

(* duplicate label names: every label set parse_labels returns has pairwise different names *)
Theorem C15_label_names_distinct : forall legacy guard_fix s om r,
  parse_labels legacy guard_fix s om = Ok r -> NoDup (map fst r).
Proof. exact parse_labels_nodup. Qed.

(* ---- non-vacuity: concrete documents and samples (ASCII instance of the oracles, proofs/OMWitness.v) ---- *)
From V Require Import proofs.OMWitness.

Definition ex_good := "# TYPE a histogram
a_bucket{le=""1""} 1
a_bucket{le=""2""} 1
a_bucket{le=""+Inf""} 3
a_count 3
a_sum 4
# TYPE b histogram
b_bucket{x=""y"",le=""+Inf""} 0
# EOF
"%string.
Definition ex_bounds := "# TYPE b gauge
b 1
# TYPE a histogram
a_bucket{x=""1"",le=""+Inf""} 0
a_bucket{x=""2"",le=""2""} 1
a_bucket{x=""2"",le=""1""} 1
a_bucket{x=""2"",le=""+Inf""} 3
# EOF
"%string.
Definition ex_counts := "# TYPE a histogram
a_bucket{le=""1""} 2
a_bucket{le=""2""} 1
a_bucket{le=""+Inf""} 3
# EOF
"%string.
Definition ex_count_mismatch := "# TYPE a histogram
a_bucket{le=""+Inf""} 3
a_count 0
a_sum 4
# EOF
"%string.
Definition ex_no_inf := "# TYPE a histogram
a_bucket{x=""1"",le=""1""} 3
a_bucket{x=""2"",le=""+Inf""} 3
# EOF
"%string.
Definition ex_blank := "# TYPE a gauge

a 1
# EOF
"%string.
Definition ex_after_eof := "# TYPE a gauge
# EOF
a 1
"%string.

Example C15_example_documents :
  is_ok (toy_parse true true true true true true ex_good) = true
  /\ toy_parse true true true true true true ex_bounds = Err ValueError
  /\ toy_parse true true true true true true ex_counts = Err ValueError
  /\ toy_parse true true true true true true ex_count_mismatch = Err ValueError
  /\ toy_parse true true true true true true ex_no_inf = Err ValueError
  /\ toy_parse true true true true true true ex_blank = Err ValueError
  /\ toy_parse true true true true true true ex_after_eof = Err ValueError
  /\ In [] (om_lines (s2l ex_blank)).
Proof. vm_compute. repeat split; auto. Qed.

(* the hypotheses of C15_hist_adjacent_buckets are satisfiable: le="2" followed by le="1" in one group *)
(* a bound of exactly zero is a bound like any other: 0 then 00 (the same number) is rejected *)
Definition ex_zero_bound := "# TYPE a histogram
a_bucket{le=""0""} 1
a_bucket{le=""00""} 1
a_bucket{le=""+Inf""} 1
# EOF
"%string.
Definition ex_ns_back := "# TYPE a gauge
a 1 9007199254740993
a 2 9007199254740992
# EOF
"%string.
Example C15_example_zero_bound_and_tiny_step :
  toy_parse true true true true true true ex_zero_bound = Err ValueError
  /\ toy_parse true true true true true true ex_ns_back = Err ValueError.
Proof. vm_compute. split; reflexivity. Qed.

Definition ex_s (le : string) (v : Z) : om_sample Z :=
  {| os_name := s2l "a_bucket"; os_labels := Some [(s2l "x", s2l "2"); (OM_le, s2l le)]; os_value := Some v;
     os_ts := None; os_ex := None; os_nh := None |}.
Example C15_example_bucket_hypotheses :
  is_bucket_of Z toy_float (s2l "a") (ex_s "2" 1) [(s2l "x", s2l "2"); (OM_le, s2l "2")] 2%Z
  /\ is_bucket_of Z toy_float (s2l "a") (ex_s "1" 1) [(s2l "x", s2l "2"); (OM_le, s2l "1")] 1%Z
  /\ om_dict_eqb (d_remove str_eqb [(s2l "x", s2l "2"); (OM_le, s2l "1")] OM_le)
                 (d_remove str_eqb [(s2l "x", s2l "2"); (OM_le, s2l "2")] OM_le) = true
  /\ om_num_le Z Z.ltb Z.eqb 1%Z 2%Z = true.
Proof.
  repeat split; try reflexivity; eexists; split; reflexivity.
Qed.

Print Assumptions C15_blank_line.
Print Assumptions C15_eof_missing.
Print Assumptions C15_eof_not_last.
Print Assumptions C15_failing_line_rejects_document.
Print Assumptions C15_hist_adjacent_buckets.
Print Assumptions C15_hist_no_inf_last_group.
Print Assumptions C15_hist_no_inf_any_group.
Print Assumptions C15_hist_count_mismatch_partial.
Print Assumptions C15_offending_scan_is_final.
Print Assumptions C15_offending_family_at_end.
Print Assumptions C15_counterlike_nan.
Print Assumptions C15_counterlike_negative.
Print Assumptions C15_info_value.
Print Assumptions C15_stateset_value.
Print Assumptions C15_stateset_label.
Print Assumptions C15_quantile_range.
Print Assumptions C15_quantile_value_negative.
Print Assumptions C15_count_integral.
Print Assumptions C15_bucket_le.
Print Assumptions C15_exemplar_ineligible.
Print Assumptions C15_exemplar_length.
Print Assumptions C15_group_timestamps.
Print Assumptions C15_timestamp_order_exact.
Print Assumptions C15_sample_line_rejected.
Print Assumptions C15_label_names_distinct.
