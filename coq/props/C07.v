(* C07 - Collect is complete and exact; a restricted registry is a pure filter.
   Statements only; every proof is `exact <lemma>` (proofs/RegistryProofs.v).
   Model: model/Registry.v (collect, restricted = RestrictedRegistry.collect, restricted_metric =
   Metric._restricted_metric); specification vocabulary: model/RegistrySpec.v (spec_keys / spec_labels = the
   registered collectors in registration order and the target info as a function of the calls and their outcomes;
   filter_collection = the filter on sample names; well_described).  No Section hypotheses, no platform facts.
   The set of collectors of a restricted registry is a Python set: family order is unspecified, hence Permutation.
   The main model describes the source after fixes/C07-restricted-metric-unit.diff and
   fixes/C07-restricted-target-info-name.diff; the pinned source is restricted_orig / restricted_metric_orig.
   The HTTP name[] parameter is not modelled: harness/c07.py checks on the implementation that _bake_output, the
   WSGI app and the ASGI app serve the exposition of restricted_registry(names) (fixes/C07-asgi-name-param.diff). *)
From V Require Import lib.PyBase model.Registry model.RegistrySpec proofs.RegistryProofs.
From Coq Require Import Permutation.
Open Scope N_scope.

(* after any history: the target family (if target info is set) followed by the families of every registered
   collector exactly once, in registration order, nothing from unregistered ones - where "registered, in
   registration order" is computed from the calls and whether they raised, nothing else; the collectors may change
   during the history (run_dyn: one environment per step), env is what they are when collect() runs *)
Theorem C07_collect_exact : forall env a eops,
  let tr := trace_dyn (empty_reg a) eops in
  collect env (run_dyn (empty_reg a) eops)
    = target_family (spec_labels [] tr) ++ flat_map (fun c => c_fams (env c)) (spec_keys [] tr)
  /\ NoDup (spec_keys [] tr).
Proof. exact collect_exact_history. Qed.
Print Assumptions C07_collect_exact.

(* the same, state by state *)
Theorem C07_collect_keys : forall env r,
  collect env r = target_family (ti r) ++ flat_map (fun c => c_fams (env c)) (map fst (c2n r)).
Proof. exact collect_keys. Qed.
Print Assumptions C07_collect_keys.

Theorem C07_keys_step : forall env r o, Inv r ->
  map fst (c2n (fst (step env r o))) = spec_step (map fst (c2n r)) o (snd (step env r o))
  /\ ti (fst (step env r o)) = spec_ti (ti r) o (snd (step env r o)).
Proof. exact (fun env r o H => conj (keys_step env r o H) (ti_step env r o)). Qed.
Print Assumptions C07_keys_step.

(* one family: name, type, help and unit unchanged, exactly the samples whose name is listed, never empty *)
Theorem C07_restricted_metric_spec : forall ns f f', restricted_metric ns f = Some f' ->
  f_name f' = f_name f /\ f_typ f' = f_typ f /\ f_help f' = f_help f /\ f_unit f' = f_unit f
  /\ f_samples f' = filter (keep ns) (f_samples f) /\ f_samples f' <> [].
Proof. exact restricted_metric_spec. Qed.
Print Assumptions C07_restricted_metric_spec.

Theorem C07_restricted_metric_none : forall ns f,
  restricted_metric ns f = None <-> filter (keep ns) (f_samples f) = [].
Proof. exact restricted_metric_none. Qed.
Print Assumptions C07_restricted_metric_none.

(* the restricted registry yields exactly the filter of the full collection (as a multiset of families) *)
Theorem C07_restricted_is_filter : forall env r ns, Inv r ->
  (forall c, registered r c -> well_described env r c) ->
  Permutation (snd (restricted env r ns)) (filter_collection ns (collect env r)).
Proof. exact restricted_is_filter. Qed.
Print Assumptions C07_restricted_is_filter.

(* names are a set: order and repetition in the argument of restricted_registry do not matter *)
Theorem C07_restricted_depends_on_name_set : forall env r ns ns', Inv r ->
  (forall c, registered r c -> well_described env r c) -> (forall n, In n ns <-> In n ns') ->
  Permutation (snd (restricted env r ns)) (snd (restricted env r ns'))
  /\ forall c, In c (fst (restricted env r ns)) <-> In c (fst (restricted env r ns')).
Proof. exact restricted_depends_on_name_set. Qed.
Print Assumptions C07_restricted_depends_on_name_set.

(* without well_described it still never yields anything outside that filter *)
Theorem C07_restricted_subset_partial : forall env r ns f, Inv r ->
  In f (snd (restricted env r ns)) -> In f (filter_collection ns (collect env r)).
Proof. exact restricted_subset. Qed.
Print Assumptions C07_restricted_subset_partial.

(* collect() is invoked exactly on the registered collectors claiming one of the names, once each *)
Theorem C07_restricted_calls_only_claimants : forall env r ns, Inv r ->
  NoDup (fst (restricted env r ns))
  /\ forall c, In c (fst (restricted env r ns)) <-> registered r c /\ exists n, In n ns /\ claims r c n.
Proof. exact restricted_calls_only_claimants. Qed.
Print Assumptions C07_restricted_calls_only_claimants.

(* the pinned _restricted_metric dropped the unit *)
Theorem C07_restricted_unit_orig_refuted :
  exists ns f f', restricted_metric_orig ns f = Some f' /\ f_unit f' <> f_unit f.
Proof. exact restricted_unit_orig_refuted. Qed.
Print Assumptions C07_restricted_unit_orig_refuted.

(* the pinned RestrictedRegistry.collect never looked up 'target_info': an Info-like collector 'target' is
   registered, well described, and restricting to {target_info} yields nothing *)
Theorem C07_restricted_target_info_orig_refuted :
  exists env ops ns,
    let r := run env (empty_reg false) ops in
    (forall c, registered r c -> well_described env r c)
    /\ ~ Permutation (snd (restricted_orig env r ns)) (filter_collection ns (collect env r)).
Proof. exact restricted_target_info_orig_refuted. Qed.
Print Assumptions C07_restricted_target_info_orig_refuted.

(* non-vacuity: a well-described registry where a name set selects part of one family and the target family *)
Definition ex7_family : family :=
  mk_family [115; 95; 98] TSummary [104] [98]
    [mk_sample [115; 95; 98; 95; 115; 117; 109] [] 2; mk_sample [115; 95; 98; 95; 99; 111; 117; 110; 116] [] 3].
Definition ex7_env (c : cid) : cbeh := mk_cbeh (Some [([115; 95; 98], TSummary)]) [ex7_family].
Example C07_example :
  let r := run ex7_env (empty_reg false) [SetTargetInfo [([97], [98])]; Register 0] in
  restricted ex7_env r [[115; 95; 98; 95; 115; 117; 109]; TI_NAME]
  = ([0], target_family [([97], [98])]
          ++ [mk_family [115; 95; 98] TSummary [104] [98] [mk_sample [115; 95; 98; 95; 115; 117; 109] [] 2]])
  /\ snd (restricted_orig ex7_env r [[115; 95; 98; 95; 115; 117; 109]])
     = [mk_family [115; 95; 98] TSummary [104] [] [mk_sample [115; 95; 98; 95; 115; 117; 109] [] 2]].
Proof. vm_compute. split; reflexivity. Qed.
