(* Specification side of C17 (definitions only): what it means for a header value to LIST a token,
   said without the functions of the model (no split / strip), and how the server-side runtimes hand
   one and the same request to the three front-ends. *)
From V Require Import lib.PyBase model.Http.
Open Scope N_scope.

Definition all_space (w : str) : Prop := forall x, In x w -> h_isspace x = true.

(* t neither starts nor ends with white space *)
Definition trimmed (t : str) : Prop :=
  t = [] \/ (exists x r, t = x :: r /\ h_isspace x = false) /\ (exists r y, t = r ++ [y] /\ h_isspace y = false).

(* e is one element of the comma-separated list h: a maximal comma-free segment *)
Definition list_element (h e : str) : Prop :=
  exists l r, h = l ++ e ++ r /\ ~ In H_COMMA e
    /\ (l = [] \/ exists l', l = l' ++ [H_COMMA])
    /\ (r = [] \/ exists r', r = H_COMMA :: r').

(* t is the token of element e: e is  <white space> t <white space> [ ';' anything ],
   t itself free of ';' and not beginning or ending with white space *)
Definition element_token (e t : str) : Prop :=
  exists w1 w2 rest, e = w1 ++ t ++ w2 ++ rest /\ all_space w1 /\ all_space w2
    /\ (rest = [] \/ exists p, rest = H_SEMI :: p)
    /\ ~ In H_SEMI t /\ trimmed t.

(* the header value lists a token satisfying P *)
Definition lists_token (h : str) (P : str -> Prop) : Prop :=
  exists e t, list_element h e /\ element_token e t /\ P t.

(* wsgiref / PEP 3333: the field lines of one name joined with ',', no key when there is none *)
Definition wsgi_joined (lines : list str) : option str :=
  match lines with [] => None | _ => Some (h_join H_COMMA lines) end.

(* the values of the ASGI scope headers whose lower-cased name is `name`, in order *)
Definition asgi_lines (lower : str -> str) (headers : list (str * str)) (name : str) : list str :=
  map snd (filter (fun nv => str_eqb (lower (fst nv)) name) headers).

(* a client that honours Content-Encoding *)
Definition client_decode (gunzip : list N -> list N) (content_encoding : option str) (body : list N) : list N :=
  match content_encoding with Some _ => gunzip body | None => body end.

(* the answer to a GET the property asks for, given the (joined) Accept and Accept-Encoding values, the
   name[] values and whether compression is disabled *)
Definition get_answer (dis : bool) (accept aenc : str) (names : option (list str))
           (code : N) (hs : list (str * str)) (b : hbody) : Prop :=
  code = 200 /\
  exists f gz,
    b = HB_expo f names gz
    /\ d_find str_eqb hs H_CONTENT_TYPE = Some (h_content_type f)
    /\ (f = HOM <-> lists_token accept (fun t => t = H_OM_TYPE))
    /\ (f = HText <-> ~ lists_token accept (fun t => t = H_OM_TYPE))
    /\ (gz = true <-> dis = false /\ lists_token aenc (fun t => h_ci_gzip t = true))
    /\ d_find str_eqb hs H_CONTENT_ENCODING = (if gz then Some H_GZIP else None).

(* ASCII-only lower-casing: a witness that the hypothesis made of str.lower is satisfiable *)
Definition ascii_lower_char (c : char) : char := if (65 <=? c) && (c <=? 90) then c + 32 else c.
Definition ascii_lower (s : str) : str := map ascii_lower_char s.
