(* Model of prometheus_client/utils.py: floatToGoString.
   The float itself is outside the model: the finite branch is pure string surgery on repr(d),
   so the model takes the class of d and, for finite d, (d > 0) and repr(d). *)
From V Require Import lib.PyBase.
Open Scope N_scope.

Definition DOT : char := 46.
Definition ZERO : char := 48.
Definition CH_e : char := 101.
Definition PLUS : char := 43.
Definition MINUS : char := 45.

(* s.find(c): index of first occurrence or -1 *)
Fixpoint find_char_from (c : char) (s : str) (i : Z) : Z :=
  match s with
  | [] => (-1)%Z
  | x :: r => if N.eqb x c then i else find_char_from c r (i + 1)%Z
  end.
Definition find_char (c : char) (s : str) : Z := find_char_from c s 0%Z.

(* s.rstrip(chars) *)
Fixpoint lstrip_set (cs : list char) (s : str) : str :=
  match s with
  | [] => []
  | x :: r => if mem_char x cs then lstrip_set cs r else s
  end.
Definition rstrip_set (cs : list char) (s : str) : str := rev (lstrip_set cs (rev s)).

Inductive fclass :=
  | FPosInf | FNegInf | FNaN
  | FFin (positive : bool) (repr : str).

Definition S_pinf := Eval compute in s2l "+Inf".
Definition S_ninf := Eval compute in s2l "-Inf".
Definition S_nan := Eval compute in s2l "NaN".

(* exponent text: `fixed` = false models the pinned source  f'e+0{dot - 1}';
   true models the repaired  f'e+{dot - 1:02d}'.  The model follows the tree: see EXP_STYLE below. *)
Definition exp_text_orig (e : N) : str := [CH_e; PLUS; ZERO] ++ dec_of_N e.
Definition exp_text_2d (e : N) : str :=
  [CH_e; PLUS] ++ (if e <? 10 then ZERO :: dec_of_N e else dec_of_N e).

Definition go_finite_with (exp_text : N -> str) (positive : bool) (s : str) : str :=
  let dot := find_char DOT s in
  if positive && (6 <? dot)%Z then
    let d := Z.to_nat dot in
    let mant := rstrip_set [ZERO; DOT]
                  (firstn 1 s ++ [DOT] ++ skipn 1 (firstn d s) ++ skipn (S d) s) in
    mant ++ exp_text (Z.to_N (dot - 1))
  else s.

Definition go_string_with (exp_text : N -> str) (c : fclass) : str :=
  match c with
  | FPosInf => S_pinf
  | FNegInf => S_ninf
  | FNaN => S_nan
  | FFin p s => go_finite_with exp_text p s
  end.

(* the model of the current tree *)
Definition go_string := go_string_with exp_text_2d.
Definition go_string_orig := go_string_with exp_text_orig.
