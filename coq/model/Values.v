(* Model of the closure state of prometheus_client/values.py: MultiProcessValue(process_identifier).
     files  : dict file_prefix -> MmapedDict          (here: prefix -> name of the file that object has open)
     values : list of live MmapedValue objects        (each: _params, _file, _key, _value, _timestamp)
     pid    : {'value': ...}                          (the identity the closure last saw)
   The directory is an association list  file name -> (association list key -> (value, timestamp)), the
   abstract view of an mmap file that C10 justifies; a file name is (typ, mode, pid), mode = "" unless gauge.
   The ambient process_identifier() is the field st_actual, changed only by the history op SetPid. *)
From V Require Import lib.PyBase model.Multiproc.
Open Scope N_scope.

Definition prefix := (str * str)%type.                  (* (typ, multiprocess_mode or "") *)
Definition fname := (prefix * str)%type.                (* '{prefix}_{pid}.db' *)
Definition prefix_eqb (a b : prefix) : bool := str_eqb (fst a) (fst b) && str_eqb (snd a) (snd b).
Definition fname_eqb (a b : fname) : bool := prefix_eqb (fst a) (fst b) && str_eqb (snd a) (snd b).

Record params := mkParams { p_typ : str; p_mode : str; p_key : key }.
(* if typ == 'gauge': file_prefix = typ + '_' + multiprocess_mode else: file_prefix = typ *)
Definition prefix_of (p : params) : prefix :=
  if str_eqb (p_typ p) S_gauge then (p_typ p, p_mode p) else (p_typ p, []).

Section Values.
  Variable F : Type.
  Variable fzero : F.
  Variable fadd : F -> F -> F.
  Variable feqb : F -> F -> bool.

  Definition cell := (F * F)%type.
  Definition content := assoc key cell.
  Definition fs := assoc fname content.

  Record value := mkValue { v_params : params; v_file : fname; v_val : F; v_ts : F }.
  Record state := mkState { st_actual : str; st_pid : str; st_files : assoc prefix fname; st_values : list value }.

  Definition init_state (pid : str) : state := mkState pid pid [] [].

  (* ----- MmapedDict on the abstract file ----- *)
  Definition fs_content (d : fs) (fn : fname) : content := match d_find fname_eqb d fn with Some c => c | None => [] end.
  Definition fs_cell (d : fs) (fn : fname) (k : key) : option cell := d_find key_eqb (fs_content d fn) k.
  (* MmapedDict(filename): creates the file when it does not exist *)
  Definition fs_open (d : fs) (fn : fname) : fs :=
    match d_find fname_eqb d fn with Some _ => d | None => d_set fname_eqb d fn [] end.
  (* _init_value when the key is not in the file *)
  Definition init_key (c : content) (k : key) : content :=
    match d_find key_eqb c k with Some _ => c | None => d_set key_eqb c k (fzero, fzero) end.
  (* read_value(key) *)
  Definition fs_read (d : fs) (fn : fname) (k : key) : fs * cell :=
    let c := init_key (fs_content d fn) k in
    (d_set fname_eqb d fn c, match d_find key_eqb c k with Some x => x | None => (fzero, fzero) end).
  (* write_value(key, value, timestamp) *)
  Definition fs_write (d : fs) (fn : fname) (k : key) (x : cell) : fs :=
    d_set fname_eqb d fn (d_set key_eqb (init_key (fs_content d fn) k) k x).

  (* ----- MmapedValue.__reset ----- *)
  Definition reset (pid : str) (files : assoc prefix fname) (d : fs) (p : params)
    : assoc prefix fname * fs * value :=
    let pre := prefix_of p in
    let '(files', d') :=
      match d_find prefix_eqb files pre with
      | Some _ => (files, d)
      | None => let fn := (pre, pid) in (d_set prefix_eqb files pre fn, fs_open d fn)
      end in
    let fn := match d_find prefix_eqb files' pre with Some fn => fn | None => (pre, pid) end in
    let '(d'', (v, ts)) := fs_read d' fn (p_key p) in
    (files', d'', mkValue p fn v ts).

  (* for value in values: value.__reset() *)
  Fixpoint reset_all (pid : str) (files : assoc prefix fname) (d : fs) (vs : list value)
    : assoc prefix fname * fs * list value :=
    match vs with
    | [] => (files, d, [])
    | v :: r =>
        let '(files', d', v') := reset pid files d (v_params v) in
        let '(files'', d'', r') := reset_all pid files' d' r in
        (files'', d'', v' :: r')
    end.

  (* __check_for_pid_change *)
  Definition check_pid (st : state) (d : fs) : state * fs :=
    if str_eqb (st_pid st) (st_actual st) then (st, d)
    else
      let '(files, d', vs) := reset_all (st_actual st) [] d (st_values st) in
      (mkState (st_actual st) (st_actual st) files vs, d').

  Inductive op :=
  | SetPid (p : str)                        (* the process identity changes (fork): nothing runs *)
  | New (p : params)                        (* MmapedValue(typ, metric_name, name, ..., multiprocess_mode) *)
  | Inc (i : nat) (a : F)                   (* values[i].inc(a) *)
  | Set_ (i : nat) (v : F) (ts : option F)  (* values[i].set(v, timestamp=ts) *)
  | Get (i : nat).                          (* values[i].get() *)

  Fixpoint upd_nth {A} (l : list A) (i : nat) (x : A) : list A :=
    match l, i with
    | [], _ => []
    | _ :: r, O => x :: r
    | y :: r, S j => y :: upd_nth r j x
    end.

  (* timestamp or 0.0 *)
  Definition ts_or_zero (o : option F) : F :=
    match o with None => fzero | Some t => if feqb t fzero then fzero else t end.

  Definition step (st : state) (d : fs) (o : op) : state * fs * option F :=
    match o with
    | SetPid p => (mkState p (st_pid st) (st_files st) (st_values st), d, None)
    | New p =>
        let '(st1, d1) := check_pid st d in
        let '(files, d2, v) := reset (st_pid st1) (st_files st1) d1 p in
        (mkState (st_actual st1) (st_pid st1) files (st_values st1 ++ [v]), d2, None)
    | Inc i a =>
        let '(st1, d1) := check_pid st d in
        match nth_error (st_values st1) i with
        | None => (st1, d1, None)
        | Some v =>
            let v' := mkValue (v_params v) (v_file v) (fadd (v_val v) a) fzero in
            (mkState (st_actual st1) (st_pid st1) (st_files st1) (upd_nth (st_values st1) i v'),
             fs_write d1 (v_file v) (p_key (v_params v)) (v_val v', v_ts v'), None)
        end
    | Set_ i x ts =>
        let '(st1, d1) := check_pid st d in
        match nth_error (st_values st1) i with
        | None => (st1, d1, None)
        | Some v =>
            let v' := mkValue (v_params v) (v_file v) x (ts_or_zero ts) in
            (mkState (st_actual st1) (st_pid st1) (st_files st1) (upd_nth (st_values st1) i v'),
             fs_write d1 (v_file v) (p_key (v_params v)) (v_val v', v_ts v'), None)
        end
    | Get i =>
        let '(st1, d1) := check_pid st d in
        (st1, d1, option_map v_val (nth_error (st_values st1) i))
    end.

  (* a whole history; returns the final state, directory and the outcomes of the steps *)
  Fixpoint run (st : state) (d : fs) (h : list op) : state * fs * list (option F) :=
    match h with
    | [] => (st, d, [])
    | o :: r =>
        let '(st1, d1, x) := step st d o in
        let '(st2, d2, xs) := run st1 d1 r in
        (st2, d2, x :: xs)
    end.

  (* driver entry: the directory and outcome after every step, so that the harness can diff each against the
     real directory.  Restart p = the worker process ends and a new interpreter (a fresh closure) starts
     with identity p over the same directory. *)
  Inductive hop := Do (o : op) | Restart (p : str).
  Fixpoint run_trace (st : state) (d : fs) (h : list hop) : list (fs * option F) :=
    match h with
    | [] => []
    | Do o :: r => let '(st1, d1, x) := step st d o in (d1, x) :: run_trace st1 d1 r
    | Restart p :: r => (d, None) :: run_trace (init_state p) d r
    end.
End Values.
