(* C17: what the symbolic body of model/Http.v stands for over the registry model of model/Registry.v.
   Definitions only.

   exposition.py _bake_output:
       if 'name[]' in params:
           registry = registry.restricted_registry(params['name[]'])
       output = encoder(registry)
   The encoder iterates over registry.collect(): CollectorRegistry.collect when there is no name[] value,
   RestrictedRegistry.collect (registry.py; model: Registry.restricted - the SET of collectors owning one of
   the names, each collected once, each family cut down to the requested sample names) otherwise.
   The encoders themselves (C03-C05) and gzip stay outside: they are functions of the family list. *)
From V Require Import lib.PyBase model.Registry model.RegistrySpec model.Http.
Open Scope N_scope.

Section HttpReg.
  Variable env : cid -> cbeh.

  (* the families handed to the encoder *)
  Definition h_collected (r : reg) (names : option (list str)) : list family :=
    match names with
    | None => collect env r
    | Some ns => snd (restricted env r ns)
    end.

  Definition h_body_families (r : reg) (b : hbody) : list family :=
    match b with
    | HB_expo _ names _ => h_collected r names
    | _ => []
    end.

  Section Bytes.
    Variable encode : hfmt -> list family -> list N.      (* the two exposition encoders *)
    Variable gzip : list N -> list N.
    Definition h_body_bytes_reg (r : reg) (b : hbody) : list N :=
      h_body_bytes (fun f names => encode f (h_collected r names)) gzip b.
  End Bytes.
End HttpReg.

(* ---- specification side: "the registry restricted to the name[] values" is a FILTER of the full
        collection (RegistrySpec.filter_collection: every family at most once, in place, with exactly
        the samples whose name was requested; families left without a sample disappear) *)
Definition restricted_to (names : option (list str)) (fams : list family) : list family :=
  match names with
  | None => fams
  | Some ns => filter_collection ns fams
  end.

(* the registry built by  CollectorRegistry(target_info=l)  followed by register(c) for each c *)
Definition h_build_registry (env : cid -> cbeh) (a : bool) (l : labels) (cs : list cid) : reg :=
  run env (empty_reg a) (SetTargetInfo l :: map Register cs).
