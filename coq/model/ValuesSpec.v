(* Declarative side of C09: what each file cell must hold after a history, stated without the caches.
   Definitions only. *)
From V Require Import lib.PyBase model.Multiproc model.Values.
Open Scope N_scope.

Section Spec.
  Variable F : Type.
  Variable fzero : F.
  Variable fadd : F -> F -> F.
  Variable feqb : F -> F -> bool.

  Notation cell := (cell F).
  Notation fs := (fs F).
  Notation op := (op F).

  (* what a file holds for a key; a key that was never initialised counts as (0, 0) *)
  Definition cell_or_zero (d : fs) (fn : fname) (k : key) : cell :=
    match fs_cell F d fn k with Some c => c | None => (fzero, fzero) end.

  (* an update of one cell, as issued by the application *)
  Inductive cellop := CInc (a : F) | CSet (v : F) (ts : option F).
  Definition apply_cellop (c : cell) (o : cellop) : cell :=
    match o with
    | CInc a => (fadd (fst c) a, fzero)
    | CSet v ts => (v, ts_or_zero F fzero feqb ts)
    end.

  (* The updates a history issues to cell (fn, k): those made through a value object whose parameters select
     the file prefix of fn and the key k, while the process identity is the pid of fn.  `actual` is the identity at
     the start, `ps` the parameters of the value objects created so far (New appends). *)
  Definition targets (actual : str) (p : params) (fn : fname) (k : key) : bool :=
    fname_eqb (prefix_of p, actual) fn && key_eqb (p_key p) k.
  Fixpoint issued (actual : str) (ps : list params) (h : list op) (fn : fname) (k : key) : list cellop :=
    match h with
    | [] => []
    | SetPid _ p :: r => issued p ps r fn k
    | New _ p :: r => issued actual (ps ++ [p]) r fn k
    | Inc _ i a :: r =>
        match nth_error ps i with
        | Some p => if targets actual p fn k then CInc a :: issued actual ps r fn k else issued actual ps r fn k
        | None => issued actual ps r fn k
        end
    | Set_ _ i v ts :: r =>
        match nth_error ps i with
        | Some p => if targets actual p fn k then CSet v ts :: issued actual ps r fn k else issued actual ps r fn k
        | None => issued actual ps r fn k
        end
    | Get _ _ :: r => issued actual ps r fn k
    end.

  (* no two live value objects are bound to the same (file prefix, key) *)
  Definition vk (p : params) : prefix * key := (prefix_of p, p_key p).
  Fixpoint wf_hist (ps : list params) (h : list op) : Prop :=
    match h with
    | [] => True
    | New _ p :: r => ~ In (vk p) (map vk ps) /\ wf_hist (ps ++ [p]) r
    | _ :: r => wf_hist ps r
    end.

  (* identity at the end of a history *)
  Fixpoint final_actual (actual : str) (h : list op) : str :=
    match h with
    | [] => actual
    | SetPid _ p :: r => final_actual p r
    | _ :: r => final_actual actual r
    end.
End Spec.

(* ----- integer-valued instance: the total over all pid files of one series ----- *)
Open Scope Z_scope.
Definition selects (p : params) (pre : prefix) (k : key) : bool :=
  prefix_eqb (prefix_of p) pre && key_eqb (p_key p) k.
(* the sum of all increments a history issues to the series (pre, k), whatever the identity at the time *)
Fixpoint inc_total (ps : list params) (h : list (op Z)) (pre : prefix) (k : key) : Z :=
  match h with
  | [] => 0
  | New _ p :: r => inc_total (ps ++ [p]) r pre k
  | Inc _ i a :: r =>
      (match nth_error ps i with Some p => if selects p pre k then a else 0 | None => 0 end)
      + inc_total ps r pre k
  | _ :: r => inc_total ps r pre k
  end.
(* the series is only ever incremented (counters, summaries, histograms): no set() through one of its values *)
Fixpoint only_incs (ps : list params) (h : list (op Z)) (pre : prefix) (k : key) : Prop :=
  match h with
  | [] => True
  | New _ p :: r => only_incs (ps ++ [p]) r pre k
  | Set_ _ i _ _ :: r =>
      (match nth_error ps i with Some p => selects p pre k = false | None => True end) /\ only_incs ps r pre k
  | _ :: r => only_incs ps r pre k
  end.
(* every identity the history takes is in pids *)
Fixpoint pids_in (pids : list str) (h : list (op Z)) : Prop :=
  match h with
  | [] => True
  | SetPid _ p :: r => In p pids /\ pids_in pids r
  | _ :: r => pids_in pids r
  end.
Definition zsum (l : list Z) : Z := fold_right Z.add 0 l.
Definition file_total (d : fs Z) (pids : list str) (pre : prefix) (k : key) : Z :=
  zsum (map (fun pid => fst (cell_or_zero Z 0 d (pre, pid) k)) pids).
