(* Model of prometheus_client/validation.py: the three regexes, with Python `re` semantics.
   `$` in  ^...$  used through .match() also matches just before a final '\n'; the repaired source
   anchors with \Z, which does not.  [anchored_dollar] selects the original behaviour. *)
From V Require Import lib.PyBase lib.PyStr.
Open Scope N_scope.

Definition name_start (c : char) : bool := is_alpha c || (c =? USCORE) || (c =? COLON).
Definition name_rest (c : char) : bool := name_start c || is_digit c.
Definition label_start (c : char) : bool := is_alpha c || (c =? USCORE).
Definition label_rest (c : char) : bool := label_start c || is_digit c.

(* [rest]*END  where END is \Z (dollar = false) or $ (dollar = true: end, or a final LF) *)
Fixpoint match_rest (dollar : bool) (p : char -> bool) (s : str) : bool :=
  match s with
  | [] => true
  | c :: r =>
      if p c then match_rest dollar p r
      else dollar && (c =? LF) && match r with [] => true | _ => false end
  end.

Definition re_name (dollar : bool) (start rest : char -> bool) (s : str) : bool :=
  match s with
  | [] => false
  | c :: r => start c && match_rest dollar rest r
  end.

(* the model of the current tree: \Z anchors (after fix F1) *)
Definition is_valid_legacy_metric_name (s : str) : bool := re_name false name_start name_rest s.
Definition is_valid_legacy_metric_name_orig (s : str) : bool := re_name true name_start name_rest s.
Definition label_name_re (s : str) : bool := re_name false label_start label_rest s.
Definition label_name_re_orig (s : str) : bool := re_name true label_start label_rest s.

(* ^__.*$ : '.' does not match LF; $ as above.  With \Z: __ followed by no LF at all. *)
Fixpoint no_lf_then_end (dollar : bool) (s : str) : bool :=
  match s with
  | [] => true
  | c :: r => if c =? LF then dollar && match r with [] => true | _ => false end
              else no_lf_then_end dollar r
  end.
Definition reserved_label_re (dollar : bool) (s : str) : bool :=
  match s with
  | a :: b :: r => (a =? USCORE) && (b =? USCORE) && no_lf_then_end dollar r
  | _ => false
  end.

Definition is_valid_legacy_labelname (s : str) : bool :=
  label_name_re s && negb (reserved_label_re true s).
Definition is_valid_legacy_labelname_orig (s : str) : bool :=
  label_name_re_orig s && negb (reserved_label_re true s).

(* _validate_metric_name / _validate_labelname in UTF-8 mode (legacy validation off): the encode step
   is the caller's `encodable` precondition; what remains is non-emptiness / the reserved prefix *)
Definition validate_metric_name_utf8 (s : str) : res unit :=
  match s with [] => Err ValueError | _ => Ok tt end.
Definition validate_metric_name_legacy (s : str) : res unit :=
  match s with [] => Err ValueError | _ => if is_valid_legacy_metric_name s then Ok tt else Err ValueError end.
Definition validate_labelname_utf8 (s : str) : res unit :=
  if reserved_label_re true s then Err ValueError else Ok tt.
Definition validate_labelname_legacy (s : str) : res unit :=
  if label_name_re s then (if reserved_label_re true s then Err ValueError else Ok tt) else Err ValueError.
