(* Reference specification for C01, written over the HISTORY of calls, not over mutable cells.
   Per family and label tuple the specification keeps only the list of ACCEPTED update calls since the
   child was (re-)created; every exposed value is read off that list:
     counter   left-to-right fadd fold of the amounts accepted since the last reset
     gauge     the calls applied in order from 0
     summary   (number of observations, left-to-right fadd fold)
     histogram bucket le=b: the number of observations a with a <= b; _count = the last (+Inf) bucket;
               _sum the fadd fold, exposed unless the first bound is negative
     info      the last accepted dict;  enum: 1 at the last accepted state (the first state initially)
   Whether a call is accepted is a stateless verdict on the call itself.  Definitions only. *)
From V Require Import lib.PyBase model.Metrics.
Open Scope N_scope.

Section Spec.
  Variable F : Type.
  Variables fzero fone finf : F.
  Variable fadd : F -> F -> F.
  Variable fneg : F -> F.
  Variables flt fle feqb : F -> F -> bool.
  Variable of_Z : Z -> res F.
  Variable zlef : Z -> F -> bool.

  Notation amount := (amount F).
  Notation mop := (mop F).
  Notation mcall := (mcall F).
  Notation msample := (msample F).
  Notation to_F := (to_F of_Z).
  Notation aneg := (aneg fneg).
  Notation alt0 := (alt0 fzero flt).
  Notation ale := (ale fle zlef).

  Definition hist := list mop.
  Definition sregistry := list (mfamily F hist).

  (* ---------- the verdict on one update call (given the metric type, its label names and states) ---------- *)
  Definition conv_verdict (a : amount) : res unit := match to_F a with Ok _ => Ok tt | Err e => Err e end.

  Definition verdict (k : mkind) (names states : list str) (m : mop) : res unit :=
    match k, m with
    | KCounter, Inc a => if alt0 a then Err ValueError else conv_verdict a
    | KCounter, Reset => Ok tt
    | KGauge, Inc a | KGauge, SetV a => conv_verdict a
    | KGauge, Dec a => conv_verdict (aneg a)
    | KSummary, Observe a | KHistogram, Observe a => conv_verdict a
    | KInfo, InfoSet kv =>
        if overlaps names kv then Err ValueError
        else if existsb (fun p => match snd p with None => true | Some _ => false end) kv then Err ValueError
        else Ok tt
    | KEnum, State s => if mem_str s states then Ok tt else Err ValueError
    | _, _ => Err AttributeError
    end.

  Definition accepted (k : mkind) (names states : list str) (m : mop) : hist :=
    match verdict k names states m with Ok _ => [m] | Err _ => [] end.

  (* ---------- readouts ---------- *)
  (* the float an accepted amount stands for *)
  Definition aval (a : amount) : F := match to_F a with Ok x => x | Err _ => fzero end.
  Definition fsum (l : list amount) : F := fold_left (fun v a => fadd v (aval a)) l fzero.

  (* counter: amounts since the last reset *)
  Definition ctr_amounts (h : hist) : list amount :=
    fold_left (fun acc m => match m with Reset => [] | Inc a => acc ++ [a] | _ => acc end) h [].
  Definition ctr_value (h : hist) : F := fsum (ctr_amounts h).

  Definition gauge_value (h : hist) : F :=
    fold_left (fun v m => match m with
                          | Inc a => fadd v (aval a)
                          | Dec a => fadd v (aval (aneg a))
                          | SetV a => aval a
                          | _ => v
                          end) h fzero.

  Definition observations (h : hist) : list amount :=
    flat_map (fun m => match m with Observe a => [a] | _ => [] end) h.

  Fixpoint countN {A} (p : A -> bool) (l : list A) : N :=
    match l with [] => 0 | x :: r => (if p x then 1 else 0) + countN p r end.

  (* bucket le=b holds the number of observations <= b *)
  Definition count_le (obs : list amount) (b : F) : N := countN (fun a => ale a b) obs.

  Definition info_value (h : hist) : list (str * str) :=
    fold_left (fun kv m => match m with
                           | InfoSet d => match strip_info d with Some d' => d' | None => kv end
                           | _ => kv
                           end) h [].

  Definition enum_index (states : list str) (h : hist) : nat :=
    fold_left (fun i m => match m with
                          | State s => match index_of s states with Some j => j | None => i end
                          | _ => i
                          end) h O.

  Definition spec_child_samples (k : mkind) (name : str) (bounds : list F) (states : list str)
             (lbls : list (str * str)) (h : hist) : list msample :=
    match k with
    | KCounter => [mkMSample (name ++ SUF_total) lbls None (VF (ctr_value h))]
    | KGauge => [mkMSample name lbls None (VF (gauge_value h))]
    | KSummary =>
        [mkMSample (name ++ SUF_count) lbls None (VI (Z.of_N (N.of_nat (length (observations h)))));
         mkMSample (name ++ SUF_sum) lbls None (VF (fsum (observations h)))]
    | KHistogram =>
        let obs := observations h in
        map (fun b => mkMSample (name ++ SUF_bucket) lbls (Some b) (VI (Z.of_N (count_le obs b)))) bounds
        ++ [mkMSample (name ++ SUF_count) lbls None (VI (Z.of_N (count_le obs (last bounds fzero))))]
        ++ (if sum_exposed fzero fle bounds then [mkMSample (name ++ SUF_sum) lbls None (VF (fsum obs))] else [])
    | KInfo => [mkMSample (name ++ SUF_info) (lbls ++ info_value h) None (VF fone)]
    | KEnum => enum_samples name lbls states (enum_index states h)
    end.

  Definition spec_family_samples (sf : mfamily F hist) : list msample :=
    let cs := spec_child_samples (f_kind sf) (f_name sf) (f_bounds sf) (f_states sf) in
    if is_nil (f_labelnames sf) then cs [] (f_solo sf)
    else flat_map (fun kc => cs (combine (f_labelnames sf) (fst kc)) (snd kc)) (f_children sf).

  Definition spec_collect (sr : sregistry) : list msample := flat_map spec_family_samples sr.

  (* ---------- the history: which calls are recorded for which child ---------- *)
  Definition sput (sr : sregistry) (f : nat) (sf : mfamily F hist) : sregistry := set_nth sr f sf.

  Definition spec_step (sr : sregistry) (o : mcall) : sregistry :=
    match o with
    | CUpd f a m =>
        match nth_error sr f with
        | None => sr
        | Some sf =>
            let acc := accepted (f_kind sf) (f_labelnames sf) (f_states sf) m in
            match resolve (f_labelnames sf) a with
            | Err _ => sr
            | Ok None =>
                if is_nil (f_labelnames sf) then sput sr f (with_solo sf (f_solo sf ++ acc)) else sr
            | Ok (Some k) =>
                let ch := ensure [] (f_children sf) k in
                sput sr f (with_children sf (d_set key_eqb ch k (child_at [] ch k ++ acc)))
            end
        end
    | CLabels f a =>
        match nth_error sr f with
        | None => sr
        | Some sf =>
            match resolve (f_labelnames sf) a with
            | Ok (Some k) => sput sr f (with_children sf (ensure [] (f_children sf) k))
            | _ => sr
            end
        end
    | CRemove f vs =>
        match nth_error sr f with
        | None => sr
        | Some sf =>
            if is_nil (f_labelnames sf) then sr
            else if negb (Nat.eqb (length vs) (length (f_labelnames sf))) then sr
            else sput sr f (with_children sf (d_remove key_eqb (f_children sf) vs))
        end
    | CClear f =>
        match nth_error sr f with
        | None => sr
        | Some sf =>
            if is_nil (f_labelnames sf) then sr else sput sr f (with_children sf [])
        end
    end.

  Definition spec_run (sr : sregistry) (ops : list mcall) : sregistry := fold_left spec_step ops sr.

  (* what the call returns *)
  Definition spec_outcome (sr : sregistry) (o : mcall) : res unit :=
    match o with
    | CUpd f a m =>
        match nth_error sr f with
        | None => Err IndexError
        | Some sf =>
            match resolve (f_labelnames sf) a with
            | Err e => Err e
            | Ok None =>
                if is_nil (f_labelnames sf) then verdict (f_kind sf) (f_labelnames sf) (f_states sf) m
                else if has_method (f_kind sf) m then Err ValueError else Err AttributeError
            | Ok (Some _) => verdict (f_kind sf) (f_labelnames sf) (f_states sf) m
            end
        end
    | CLabels f a =>
        match nth_error sr f with
        | None => Err IndexError
        | Some sf => match resolve (f_labelnames sf) a with Err e => Err e | Ok _ => Ok tt end
        end
    | CRemove f vs =>
        match nth_error sr f with
        | None => Err IndexError
        | Some sf =>
            if is_nil (f_labelnames sf) then Err ValueError
            else if negb (Nat.eqb (length vs) (length (f_labelnames sf))) then Err ValueError else Ok tt
        end
    | CClear f =>
        match nth_error sr f with
        | None => Err IndexError
        | Some sf =>
            if is_nil (f_labelnames sf) then
              match f_kind sf with KInfo | KEnum => Ok tt | _ => Err AttributeError end
            else Ok tt
        end
    end.

  (* ---------- from histories back to cells: the abstraction function of the refinement ---------- *)
  Definition hist_cells (bounds : list F) (obs : list amount) : list N :=
    fold_left (fun cs a => bump fle zlef bounds cs a) obs (map (fun _ => 0) bounds).

  Definition interp (k : mkind) (bounds : list F) (states : list str) (h : hist) : child F :=
    match k with
    | KCounter => Ctr (CF (ctr_value h))
    | KGauge => Gge (gauge_value h)
    | KSummary => Smy (N.of_nat (length (observations h))) (fsum (observations h))
    | KHistogram => Hst (fsum (observations h)) (hist_cells bounds (observations h))
    | KInfo => Inf (info_value h)
    | KEnum => Enm (enum_index states h)
    end.

  Definition mapv {C D} (g : C -> D) (l : list (key * C)) : list (key * D) :=
    map (fun kc => (fst kc, g (snd kc))) l.

  Definition interp_family (sf : mfamily F hist) : mfamily F (child F) :=
    let g := interp (f_kind sf) (f_bounds sf) (f_states sf) in
    mkMFamily (f_kind sf) (f_name sf) (f_labelnames sf) (f_bounds sf) (f_states sf)
              (g (f_solo sf)) (mapv g (f_children sf)).

  Definition interp_reg (sr : sregistry) : mregistry F := map interp_family sr.

  (* a registry of freshly constructed metrics: every history empty *)
  Definition fresh_family (k : mkind) (name : str) (names : list str) (bounds : list F) (states : list str)
    : mfamily F hist := mkMFamily k name names bounds states [] [].

End Spec.

Arguments hist F : clear implicits.
Arguments sregistry F : clear implicits.
Arguments conv_verdict {F}. Arguments verdict {F}. Arguments accepted {F}. Arguments aval {F}. Arguments fsum {F}.
Arguments ctr_amounts {F}. Arguments ctr_value {F}. Arguments gauge_value {F}. Arguments observations {F}.
Arguments count_le {F}. Arguments info_value {F}. Arguments enum_index {F}. Arguments spec_child_samples {F}.
Arguments spec_family_samples {F}. Arguments spec_collect {F}. Arguments sput {F}. Arguments spec_step {F}.
Arguments spec_run {F}. Arguments spec_outcome {F}. Arguments hist_cells {F}. Arguments interp {F}.
Arguments interp_family {F}. Arguments interp_reg {F}. Arguments fresh_family {F}.
