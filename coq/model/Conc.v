(* C02 - a small interleaving semantics for the lock-level behaviour of prometheus_client
   (values.py, metrics.py, registry.py).  Definitions only.

   A configuration holds value cells (loc -> Z), child/collector tables (tbl -> association list),
   a lock map (lock -> owner thread), per-thread remaining instructions + registers + held locks, a fresh-id
   counter and the trace of visible events (newest first).  `step t c` runs ONE instruction of thread t
   (None = not enabled: finished thread, or Acq of a held lock); `exec` runs a schedule, skipping disabled steps.
   Each library operation is a fixed instruction list written against the Python source (section "programs").  *)
From V Require Import lib.PyBase.
Open Scope N_scope.

(* ---------- identifiers ---------- *)
Inductive loc := LStat (n : N) | LChild (c j : N).     (* a static value cell / field j of the child with id c *)
Inductive lock := KStat (n : N) | KChild (c j : N).    (* a static lock / the mutex of field j of child c *)
Definition tbl := N.
Definition key := N.
Definition reg := N.

Definition loc_eqb (a b : loc) : bool :=
  match a, b with
  | LStat n, LStat m => N.eqb n m
  | LChild c j, LChild d k => N.eqb c d && N.eqb j k
  | _, _ => false
  end.
Definition lock_eqb (a b : lock) : bool :=
  match a, b with
  | KStat n, KStat m => N.eqb n m
  | KChild c j, KChild d k => N.eqb c d && N.eqb j k
  | _, _ => false
  end.

(* register contents *)
Inductive val := VNone | VInt (z : Z) | VId (n : N) | VSnap (l : list (key * N)).
Definition to_id (v : val) : N := match v with VId n => n | _ => 0 end.
Definition to_z (v : val) : Z := match v with VInt z => z | _ => 0%Z end.
Definition is_present (v : val) : bool := match v with VNone => false | _ => true end.

(* operands *)
Inductive lref := SLoc (n : N) | DLoc (r : reg) (j : N).    (* static cell n / field j of the child whose id is in r *)
Inductive kref := SLock (n : N) | DLock (r : reg) (j : N).
Inductive idref := IConst (n : N) | IReg (r : reg).
Inductive expr := EConst (z : Z) | EReg (r : reg) | EAdd (r : reg) (a : Z).

Inductive instr :=
  | Acq (l : kref) | Rel (l : kref)
  | Load (r : reg) (x : lref) | Store (x : lref) (e : expr)
  | TblLookup (r : reg) (t : tbl) (k : key) | TblInsert (t : tbl) (k : key) (v : idref)
  | TblDel (t : tbl) (k : key) | TblClear (t : tbl) | TblCopy (r : reg) (t : tbl)
  | New (r : reg)
  | JmpIf (present : bool) (r : reg) (n : nat)          (* skip the next n instructions if is_present(r) = present *)
  | ForSnap (r rr : reg) (b : N)                        (* for (k,id) in snapshot r: rr := id; run body b *)
  | Callout (c : idref)                                 (* call collector c's collect(): runs body c *)
  | Ret (e : idref) | RetZ (e : expr)
  | Raise.                                              (* the operation raises: the thread stops *)

Inductive upd := USet (z : Z) | UAdd (a : Z).
Definition apply_upd (cur : Z) (u : upd) : Z := match u with USet z => z | UAdd a => (cur + a)%Z end.

Inductive twrite := WIns (k : key) (v : N) | WDel (k : key) | WClear.

Inductive event :=
  | EvAcq (t : nat) (l : lock) | EvRel (t : nat) (l : lock)
  | EvLoad (t : nat) (x : loc) (v : Z) | EvUpd (t : nat) (x : loc) (u : upd)
  | EvLookup (t : nat) (tb : tbl) (k : key) (res : option N) | EvCopy (t : nat) (tb : tbl)
  | EvTWrite (t : nat) (tb : tbl) (w : twrite)
  | EvNew (t : nat) (c : N)
  | EvCall (t : nat) (c : N) (held : list lock)
  | EvRet (t : nat) (v : N) | EvRetZ (t : nat) (z : Z)
  | EvExc (t : nat).

Record thread := mkThread { code : list instr; regs : reg -> val; held : list lock }.

Record config := mkConfig {
  heap : loc -> Z;
  tabs : tbl -> list (key * N);
  locks : lock -> option nat;
  thr : nat -> thread;
  next : N;
  trace : list event          (* newest first *)
}.

Definition updf {A B} (eqb : A -> A -> bool) (f : A -> B) (a : A) (b : B) : A -> B :=
  fun x => if eqb x a then b else f x.

Definition res_loc (rg : reg -> val) (x : lref) : loc :=
  match x with SLoc n => LStat n | DLoc r j => LChild (to_id (rg r)) j end.
Definition res_lock (rg : reg -> val) (l : kref) : lock :=
  match l with SLock n => KStat n | DLock r j => KChild (to_id (rg r)) j end.
Definition res_id (rg : reg -> val) (i : idref) : N :=
  match i with IConst n => n | IReg r => to_id (rg r) end.

Definition upd_of (rg : reg -> val) (e : expr) : upd :=
  match e with
  | EConst z => USet z
  | EReg r => USet (to_z (rg r))
  | EAdd r a => USet (to_z (rg r) + a)       (* what is WRITTEN: the register plus a; see ev_of *)
  end.
(* what the operation MEANT (the event): an increment by a, or a set *)
Definition ev_of (rg : reg -> val) (e : expr) : upd :=
  match e with
  | EConst z => USet z
  | EReg r => USet (to_z (rg r))
  | EAdd _ a => UAdd a
  end.
Definition written (rg : reg -> val) (e : expr) : Z :=
  match e with
  | EConst z => z
  | EReg r => to_z (rg r)
  | EAdd r a => (to_z (rg r) + a)%Z
  end.

Fixpoint remove_lock (l : lock) (h : list lock) : list lock :=
  match h with
  | [] => []
  | x :: r => if lock_eqb x l then r else x :: remove_lock l r
  end.

Section Sem.
  Variable bodies : N -> list instr.     (* collector / loop bodies, by id *)

  Definition set_thr (c : config) (t : nat) (th : thread) : nat -> thread := updf Nat.eqb (thr c) t th.

  Definition step (t : nat) (c : config) : option config :=
    let th := thr c t in
    let rg := regs th in
    match code th with
    | [] => None
    | i :: rest =>
      let adv := mkThread rest rg (held th) in          (* plain advance *)
      let setr r v := mkThread rest (updf N.eqb rg r v) (held th) in
      match i with
      | Acq l =>
          let k := res_lock rg l in
          match locks c k with
          | Some _ => None
          | None => Some (mkConfig (heap c) (tabs c) (updf lock_eqb (locks c) k (Some t))
                            (set_thr c t (mkThread rest rg (k :: held th))) (next c) (EvAcq t k :: trace c))
          end
      | Rel l =>
          let k := res_lock rg l in
          Some (mkConfig (heap c) (tabs c)
                  (match locks c k with
                   | Some o => if Nat.eqb o t then updf lock_eqb (locks c) k None else locks c
                   | None => locks c end)
                  (set_thr c t (mkThread rest rg (remove_lock k (held th)))) (next c) (EvRel t k :: trace c))
      | Load r x =>
          let a := res_loc rg x in
          Some (mkConfig (heap c) (tabs c) (locks c) (set_thr c t (setr r (VInt (heap c a)))) (next c)
                  (EvLoad t a (heap c a) :: trace c))
      | Store x e =>
          let a := res_loc rg x in
          Some (mkConfig (updf loc_eqb (heap c) a (written rg e)) (tabs c) (locks c) (set_thr c t adv) (next c)
                  (EvUpd t a (ev_of rg e) :: trace c))
      | TblLookup r tb k =>
          let res := d_find N.eqb (tabs c tb) k in
          Some (mkConfig (heap c) (tabs c) (locks c)
                  (set_thr c t (setr r (match res with Some v => VId v | None => VNone end))) (next c)
                  (EvLookup t tb k res :: trace c))
      | TblInsert tb k v =>
          let w := res_id rg v in
          Some (mkConfig (heap c) (updf N.eqb (tabs c) tb (d_set N.eqb (tabs c tb) k w)) (locks c)
                  (set_thr c t adv) (next c) (EvTWrite t tb (WIns k w) :: trace c))
      | TblDel tb k =>
          Some (mkConfig (heap c) (updf N.eqb (tabs c) tb (d_remove N.eqb (tabs c tb) k)) (locks c)
                  (set_thr c t adv) (next c) (EvTWrite t tb (WDel k) :: trace c))
      | TblClear tb =>
          Some (mkConfig (heap c) (updf N.eqb (tabs c) tb []) (locks c)
                  (set_thr c t adv) (next c) (EvTWrite t tb WClear :: trace c))
      | TblCopy r tb =>
          Some (mkConfig (heap c) (tabs c) (locks c) (set_thr c t (setr r (VSnap (tabs c tb)))) (next c)
                  (EvCopy t tb :: trace c))
      | New r =>
          Some (mkConfig (heap c) (tabs c) (locks c) (set_thr c t (setr r (VId (next c)))) (next c + 1)
                  (EvNew t (next c) :: trace c))
      | JmpIf p r n =>
          let rest' := if Bool.eqb (is_present (rg r)) p then skipn n rest else rest in
          Some (mkConfig (heap c) (tabs c) (locks c) (set_thr c t (mkThread rest' rg (held th))) (next c) (trace c))
      | ForSnap r rr b =>
          match rg r with
          | VSnap ((_, id) :: more) =>
              let rg' := updf N.eqb (updf N.eqb rg r (VSnap more)) rr (VId id) in
              Some (mkConfig (heap c) (tabs c) (locks c)
                      (set_thr c t (mkThread (bodies b ++ ForSnap r rr b :: rest) rg' (held th))) (next c) (trace c))
          | _ => Some (mkConfig (heap c) (tabs c) (locks c) (set_thr c t adv) (next c) (trace c))
          end
      | Callout ci =>
          let cid := res_id rg ci in
          Some (mkConfig (heap c) (tabs c) (locks c)
                  (set_thr c t (mkThread (bodies cid ++ rest) rg (held th))) (next c)
                  (EvCall t cid (held th) :: trace c))
      | Ret e =>
          Some (mkConfig (heap c) (tabs c) (locks c) (set_thr c t adv) (next c) (EvRet t (res_id rg e) :: trace c))
      | RetZ e =>
          Some (mkConfig (heap c) (tabs c) (locks c) (set_thr c t adv) (next c) (EvRetZ t (written rg e) :: trace c))
      | Raise =>
          (* the exception unwinds the enclosing `with` blocks one by one, then the thread stops *)
          match held th with
          | k :: more =>
              Some (mkConfig (heap c) (tabs c)
                      (match locks c k with
                       | Some o => if Nat.eqb o t then updf lock_eqb (locks c) k None else locks c
                       | None => locks c end)
                      (set_thr c t (mkThread (Raise :: rest) rg (remove_lock k (held th)))) (next c) (EvRel t k :: trace c))
          | [] =>
              Some (mkConfig (heap c) (tabs c) (locks c) (set_thr c t (mkThread [] rg [])) (next c)
                      (EvExc t :: trace c))
          end
      end
    end.

  Fixpoint exec (s : list nat) (c : config) : config :=
    match s with
    | [] => c
    | t :: s' => match step t c with Some c' => exec s' c' | None => exec s' c end
    end.

  Definition enabled (t : nat) (c : config) : bool := match step t c with Some _ => true | None => false end.
  Definition finished (t : nat) (c : config) : bool := match code (thr c t) with [] => true | _ => false end.
End Sem.

Definition empty_thread : thread := mkThread [] (fun _ => VNone) [].
Fixpoint thr_of_list (ps : list (list instr)) (t : nat) : thread :=
  match ps, t with
  | [], _ => empty_thread
  | p :: _, O => mkThread p (fun _ => VNone) []
  | _ :: r, S t' => thr_of_list r t'
  end.
Definition init_config (h0 : loc -> Z) (tb0 : tbl -> list (key * N)) (n0 : N) (ps : list (list instr)) : config :=
  mkConfig h0 tb0 (fun _ => None) (thr_of_list ps) n0 [].

(* ---------- trace functions used by the statements ---------- *)
(* value of cell x after the updates recorded in a (newest-first) trace *)
Fixpoint cur (h0 : loc -> Z) (x : loc) (tr : list event) : Z :=
  match tr with
  | [] => h0 x
  | EvUpd _ y u :: older => if loc_eqb y x then apply_upd (cur h0 x older) u else cur h0 x older
  | _ :: older => cur h0 x older
  end.
(* sum of the amounts of all increments of x in the trace *)
Fixpoint sum_incs (x : loc) (tr : list event) : Z :=
  match tr with
  | [] => 0%Z
  | EvUpd _ y (UAdd a) :: older => if loc_eqb y x then (sum_incs x older + a)%Z else sum_incs x older
  | _ :: older => sum_incs x older
  end.
Fixpoint only_incs (x : loc) (tr : list event) : Prop :=
  match tr with
  | [] => True
  | EvUpd _ y (USet _) :: older => loc_eqb y x = false /\ only_incs x older
  | _ :: older => only_incs x older
  end.
Fixpoint nonneg_incs (x : loc) (tr : list event) : Prop :=
  match tr with
  | [] => True
  | EvUpd _ y (UAdd a) :: older => (loc_eqb y x = true -> (0 <= a)%Z) /\ nonneg_incs x older
  | _ :: older => nonneg_incs x older
  end.
(* every Load event reports the value the cell held at that moment *)
Fixpoint loads_ok (h0 : loc -> Z) (tr : list event) : Prop :=
  match tr with
  | [] => True
  | EvLoad _ x v :: older => v = cur h0 x older /\ loads_ok h0 older
  | _ :: older => loads_ok h0 older
  end.
Fixpoint no_removal (tb : tbl) (tr : list event) : Prop :=
  match tr with
  | [] => True
  | EvTWrite _ tb' (WDel _) :: older => N.eqb tb' tb = false /\ no_removal tb older
  | EvTWrite _ tb' WClear :: older => N.eqb tb' tb = false /\ no_removal tb older
  | _ :: older => no_removal tb older
  end.

(* ---------- lock discipline: a boolean check on programs ---------- *)
Definition kref_eqb (a b : kref) : bool :=
  match a, b with
  | SLock n, SLock m => N.eqb n m
  | DLock r j, DLock s k => N.eqb r s && N.eqb j k
  | _, _ => false
  end.
Definition lref_eqb (a b : lref) : bool :=
  match a, b with
  | SLoc n, SLoc m => N.eqb n m
  | DLoc r j, DLoc s k => N.eqb r s && N.eqb j k
  | _, _ => false
  end.
Fixpoint mem_kref (k : kref) (h : list kref) : bool :=
  match h with [] => false | x :: r => kref_eqb k x || mem_kref k r end.
Definition kref_uses (r : reg) (k : kref) : bool := match k with DLock s _ => N.eqb r s | _ => false end.
Definition lref_uses (r : reg) (x : lref) : bool := match x with DLoc s _ => N.eqb r s | _ => false end.
Fixpoint held_uses (r : reg) (h : list kref) : bool :=
  match h with [] => false | k :: m => kref_uses r k || held_uses r m end.

(* "loaded" fact: register r holds the current value of cell x (valid while x's lock is held) *)
Definition ldfact := option (reg * lref).
Definition kill (r : reg) (ld : ldfact) : ldfact :=
  match ld with
  | Some (r', x) => if N.eqb r r' || lref_uses r x then None else ld
  | None => None
  end.
(* "looked up" facts about a table entry, valid while the table's lock is held *)
Inductive msfact := MNone | MLooked (r : reg) (tb : tbl) (k : key) | MMissing (tb : tbl) (k : key).
Definition mkill (r : reg) (ms : msfact) : msfact :=
  match ms with MLooked r' _ _ => if N.eqb r r' then MNone else ms | _ => ms end.
Definition tkill (tb : tbl) (ms : msfact) : msfact :=
  match ms with
  | MLooked _ tb' _ => if N.eqb tb tb' then MNone else ms
  | MMissing tb' _ => if N.eqb tb tb' then MNone else ms
  | MNone => MNone
  end.
Definition ms_branch (p taken : bool) (r : reg) (ms : msfact) : msfact :=
  (* JmpIf p r: the jump is taken iff is_present(r) = p; on the side where r is known absent, MLooked becomes MMissing *)
  match ms with
  | MLooked r' tb k => if N.eqb r r' && negb (Bool.eqb p taken) then MMissing tb k else ms
  | _ => ms
  end.
Definition ms_is_missing (ms : msfact) (tb : tbl) (k : key) : bool :=
  match ms with MMissing tb' k' => N.eqb tb tb' && N.eqb k k' | _ => false end.

Record discipline := mkDisc {
  towner : tbl -> N;                 (* which static lock guards a table *)
  create_only : tbl -> bool;         (* tables whose entries may only be created when absent (child tables) *)
  owner_ref : lref -> option kref;   (* the syntactic lock guarding a syntactic cell *)
  krank : kref -> N                  (* acquisition order: strictly increasing *)
}.

Section Discipline.
  Variable D : discipline.

  Fixpoint all_below (h : list kref) (k : kref) : bool :=
    match h with [] => true | x :: r => (krank D x <? krank D k) && all_below r k end.
  Definition guards (h : list kref) (x : lref) : bool :=
    match owner_ref D x with Some k => mem_kref k h | None => false end.
  Definition tguard (h : list kref) (tb : tbl) : bool := mem_kref (SLock (towner D tb)) h.

  Definition ld_keep (h : list kref) (ld : ldfact) : ldfact :=
    match ld with Some (_, x) => if guards h x then ld else None | None => None end.
  Definition ms_keep (h : list kref) (ms : msfact) : msfact :=
    match ms with
    | MLooked _ tb _ => if tguard h tb then ms else MNone
    | MMissing tb _ => if tguard h tb then ms else MNone
    | MNone => MNone
    end.

  Fixpoint wf (fuel : nat) (h : list kref) (ld : ldfact) (ms : msfact) (code : list instr) : bool :=
    match fuel with
    | O => false
    | S fuel' =>
    match code with
    | [] => match h, ld, ms with [], None, MNone => true | _, _, _ => false end
    | i :: rest =>
      match i with
      | Acq k => negb (mem_kref k h) && all_below h k && wf fuel' (k :: h) ld ms rest
      | Rel k => match h with
                 | k' :: h' => kref_eqb k k' && wf fuel' h' (ld_keep h' ld) (ms_keep h' ms) rest
                 | [] => false end
      | Load r x => negb (held_uses r h) && negb (lref_uses r x)
                    && wf fuel' h (if guards h x then Some (r, x) else kill r ld) (mkill r ms) rest
      | Store x e =>
          guards h x &&
          match e with
          | EAdd r a => match ld with
                        | Some (r', x') => N.eqb r r' && lref_eqb x x'
                        | None => false end
          | _ => true
          end && wf fuel' h None ms rest
      | TblLookup r tb k => tguard h tb && negb (held_uses r h) && wf fuel' h (kill r ld) (MLooked r tb k) rest
      | TblInsert tb k v => tguard h tb && (negb (create_only D tb) || ms_is_missing ms tb k)
                            && wf fuel' h ld (tkill tb ms) rest
      | TblDel tb k => tguard h tb && wf fuel' h ld (tkill tb ms) rest
      | TblClear tb => tguard h tb && wf fuel' h ld (tkill tb ms) rest
      | TblCopy r tb => tguard h tb && negb (held_uses r h) && wf fuel' h (kill r ld) (mkill r ms) rest
      | New r => negb (held_uses r h) && wf fuel' h (kill r ld) (mkill r ms) rest
      | JmpIf p r n => Nat.leb n (length rest) && wf fuel' h ld (ms_branch p false r ms) rest
                       && wf fuel' h ld (ms_branch p true r ms) (skipn n rest)
      | ForSnap r rr b => match h, ld, ms with [], None, MNone => negb (N.eqb r rr) && wf fuel' [] None MNone rest | _, _, _ => false end
      | Callout _ => match h, ld, ms with [], None, MNone => wf fuel' [] None MNone rest | _, _, _ => false end
      | Ret _ | RetZ _ => wf fuel' h ld ms rest
      | Raise => true
      end
    end
    end.
  Definition wf_prog (p : list instr) : bool := wf (S (length p)) [] None MNone p.
End Discipline.

(* ---------- programs: each library operation as a fixed instruction list, written against the source ---------- *)
(* Static numbering.  Locks: 0 = the registry's _lock (R); 1 = the process-wide lock of MultiProcessValue (S);
   10+tb = the _lock of the labelled parent metric whose child table is tb (P); 100+n = the _lock of the MutexValue
   of static cell n; 50+u = a mutex owned by user collector u.  Tables: 0 = _collector_to_names (RC),
   1 = _names_to_collectors (RN), tb >= 2 = a parent's _metrics.  Cell 0 = the registry's _target_info.  *)
Definition R_LOCK : N := 0.
Definition S_LOCK : N := 1.
Definition RC : tbl := 0.
Definition RN : tbl := 1.
Definition TI : lref := SLoc 0.

Section Programs.
  Variable mp : bool.        (* file-backed (multiprocess) value store: one process-wide lock for every cell *)

  Definition lk (x : lref) : kref :=
    match x with
    | SLoc n => if N.eqb n 0 then SLock R_LOCK else if mp then SLock S_LOCK else SLock (100 + n)
    | DLoc r j => if mp then SLock S_LOCK else DLock r j
    end.
  Definition plock (tb : tbl) : kref := SLock (if tb <? 2 then R_LOCK else 10 + tb).

  (* values.MutexValue.inc / MmapedValue.inc:  with lock: self._value += amount *)
  Definition inc_prog (rb : reg) (x : lref) (a : Z) : list instr :=
    [Acq (lk x); Load rb x; Store x (EAdd rb a); Rel (lk x)].
  (* values.*.set:  with lock: self._value = value *)
  Definition set_prog (x : lref) (v : Z) : list instr := [Acq (lk x); Store x (EConst v); Rel (lk x)].
  (* values.*.inc with an amount that cannot be added to the cell (a str, None, a Decimal, an object whose __radd__
     raises).  inlock = true:  with lock: self._value += amount  - the cell is read, the addition raises INSIDE the
     critical section, the `with` releases the mutex while the exception unwinds, nothing is stored, the calling
     operation ends.  inlock = false: the amount is refused before the mutex is taken (the property fixes neither). *)
  Definition inc_fail_prog (rb : reg) (x : lref) (inlock : bool) : list instr :=
    if inlock then [Acq (lk x); Load rb x; Raise] else [Raise].
  (* values.*.get (+ MutexValue.get_exemplar, an empty critical section as far as cells go) *)
  Definition get_prog (rb : reg) (x : lref) (locked exsec : bool) : list instr :=
    (if locked then [Acq (lk x); Load rb x; Rel (lk x)] else [Load rb x])
    ++ (if exsec then [Acq (lk x); Rel (lk x)] else []).
  (* the child constructor in multiprocess mode takes the store lock once per value object (nc of them) *)
  Fixpoint ctor_prog (nc : nat) : list instr :=
    match nc with O => [] | S n => if mp then Acq (SLock S_LOCK) :: Rel (SLock S_LOCK) :: ctor_prog n else ctor_prog n end.
  (* metrics.MetricWrapperBase.labels():  with self._lock: if k not in self._metrics: self._metrics[k] = Child(); return self._metrics[k] *)
  Definition labels_prog (rb : reg) (tb : tbl) (k : key) (nc : nat) : list instr :=
    [Acq (plock tb); TblLookup rb tb k; JmpIf true rb (2 + length (ctor_prog nc)); New (rb + 1)]
    ++ ctor_prog nc ++
    [TblInsert tb k (IReg (rb + 1)); TblLookup rb tb k; Rel (plock tb); Ret (IReg rb)].
  (* remove():  with self._lock: if k in self._metrics: del self._metrics[k] *)
  Definition remove_prog (rb : reg) (tb : tbl) (k : key) : list instr :=
    [Acq (plock tb); TblLookup rb tb k; JmpIf false rb 1; TblDel tb k; Rel (plock tb)].
  (* clear():  with self._lock: self._metrics = {} *)
  Definition clear_prog (tb : tbl) : list instr := [Acq (plock tb); TblClear tb; Rel (plock tb)].
  (* _multi_samples():  with self._lock: metrics = self._metrics.copy();  then for each child: child._samples() *)
  Definition multi_prog (tb : tbl) (b : N) : list instr :=
    [Acq (plock tb); TblCopy 2 tb; Rel (plock tb); ForSnap 2 3 b].
  (* registry.register(c): with self._lock: names = describe(); duplicates? raise; record *)
  (* registry.register(c): ... self._collector_to_names[c] = self._collector_to_names.get(c, []) + names  (the get is the second lookup) *)
  Definition register_prog (rb : reg) (c : N) : list instr :=
    [Acq (SLock R_LOCK); TblLookup rb RN c; JmpIf false rb 1; Raise;
     TblInsert RN c (IConst c); TblLookup rb RC c; TblInsert RC c (IConst c); Rel (SLock R_LOCK)].
  (* registry.unregister(c): with self._lock: for name in self._collector_to_names[c]: del ...; del ... *)
  Definition unregister_prog (rb : reg) (c : N) : list instr :=
    [Acq (SLock R_LOCK); TblLookup rb RC c; JmpIf true rb 1; Raise;
     TblDel RN c; TblDel RC c; Rel (SLock R_LOCK)].
  (* RestrictedRegistry.collect(): look the name up under the lock, call the collector after releasing it *)
  Definition lookup_prog (rb : reg) (n : N) : list instr :=
    [Acq (SLock R_LOCK); TblLookup rb RN n; Rel (SLock R_LOCK); JmpIf false rb 1; Callout (IReg rb)].
  (* registry.collect(): with self._lock: collectors = copy(self._collector_to_names); ti = ...;  then call each *)
  Definition collect_prog (b : N) : list instr :=
    [Acq (SLock R_LOCK); TblCopy 0 RC; Load 5 TI; Rel (SLock R_LOCK); ForSnap 0 1 b].

  (* registry.register(c) for a collector that describes SEVERAL names (a Counter describes x, x_total, x_created; a
     Histogram five names): with self._lock: names = describe(); any name already recorded? raise; record every name;
     record the collector *)
  Definition dupcheck_prog (rb : reg) (ks : list key) : list instr :=
    flat_map (fun k => [TblLookup rb RN k; JmpIf false rb 1; Raise]) ks.
  Definition register_names_prog (rb : reg) (c : N) (ks : list key) : list instr :=
    Acq (SLock R_LOCK) :: dupcheck_prog rb ks ++ map (fun k => TblInsert RN k (IConst c)) ks
    ++ [TblLookup rb RC c; TblInsert RC c (IConst c); Rel (SLock R_LOCK)].
  (* registry.unregister(c) for such a collector: every recorded name is released, then the collector *)
  Definition unregister_names_prog (rb : reg) (c : N) (ks : list key) : list instr :=
    Acq (SLock R_LOCK) :: TblLookup rb RC c :: JmpIf true rb 1 :: Raise ::
    map (fun k => TblDel RN k) ks ++ [TblDel RC c; Rel (SLock R_LOCK)].
  (* metrics.MetricWrapperBase.__init__ with a registry: the parent fields / the value objects are prepared first
     (_metric_init: nc value objects, each taking the store lock once in the file-backed back-end; a labelled parent
     allocates none), and only then is the finished metric published by registry.register(self) *)
  Definition construct_prog (rb : reg) (c : N) (ks : list key) (nc : nat) : list instr :=
    ctor_prog nc ++ register_names_prog rb c ks.

  Inductive op :=
    | OInc (x : lref) (a : Z) | OSet (x : lref) (v : Z) | OGet (x : lref) (locked exsec : bool)
    | OLabels (tb : tbl) (k : key) (nc : nat)
    | OLabelsInc (tb : tbl) (k : key) (nc : nat) (j : N) (a : Z)
    | ORemove (tb : tbl) (k : key) | OClear (tb : tbl)
    | OMulti (tb : tbl) (b : N)
    | ORegister (c : N) | OUnregister (c : N) | OLookup (n : N)
    | OCollect (b : N) | OCallReg
    | OUserAcq (u : N) | OUserRel (u : N)
    | OConstruct (c : N) (ks : list key) (nc : nat)
    | OUnregisterN (c : N) (ks : list key)
    | OIncFail (x : lref) (inlock : bool).

  Definition compile_op (rb : reg) (o : op) : list instr :=
    match o with
    | OInc x a => inc_prog rb x a
    | OSet x v => set_prog x v
    | OGet x l e => get_prog rb x l e
    | OLabels tb k nc => labels_prog rb tb k nc
    | OLabelsInc tb k nc j a => labels_prog rb tb k nc ++ inc_prog (rb + 2) (DLoc rb j) a
    | ORemove tb k => remove_prog rb tb k
    | OClear tb => clear_prog tb
    | OMulti tb b => multi_prog tb b
    | ORegister c => register_prog rb c
    | OUnregister c => unregister_prog rb c
    | OLookup n => lookup_prog rb n
    | OCollect b => collect_prog b
    | OCallReg => [Callout (IReg 1)]
    | OUserAcq u => [Acq (SLock (50 + u))]
    | OUserRel u => [Rel (SLock (50 + u))]
    | OConstruct c ks nc => construct_prog rb c ks nc
    | OUnregisterN c ks => unregister_names_prog rb c ks
    | OIncFail x inlock => inc_fail_prog rb x inlock
    end.
  Fixpoint compile_from (rb : reg) (ops : list op) : list instr :=
    match ops with [] => [] | o :: r => compile_op rb o ++ compile_from (rb + 4) r end.
  (* thread programs use registers from 10 up; bodies use the fixed low registers and 6.. for their own operations *)
  Definition compile_thread (ops : list op) : list instr := compile_from 10 ops.
  Definition compile_body (ops : list op) : list instr := compile_from 6 ops.

  (* the discipline of the library *)
  Definition lib_disc : discipline :=
    mkDisc (fun tb => if tb <? 2 then R_LOCK else 10 + tb)
           (fun tb => negb (tb <? 2))
           (fun x => Some (lk x))
           (fun k => match k with
                     | SLock n => if n =? S_LOCK then 2 else if n <? 50 then 1 else if n <? 100 then 0 else 3
                     | DLock _ _ => 3 end).
End Programs.

Fixpoint body_table (l : list (N * list instr)) (b : N) : list instr :=
  match l with [] => [] | (b', p) :: r => if N.eqb b b' then p else body_table r b end.
