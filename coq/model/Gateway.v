(* C19 - Pushgateway requests.  Model of prometheus_client/exposition.py:
     _escape_grouping_key, _use_gateway, push_to_gateway / pushadd_to_gateway / delete_from_gateway
   and, on the other side, the Pushgateway's decoder of the request path (written from the Pushgateway's
   rules: Go net/http path un-escaping, split on '/', pairs, `name@base64` => URL-safe base64 with optional
   padding, label names must match the legacy label-name pattern).
   Definitions only.  A Python str is a list of code points; bytes are a list of N (< 256); the URL is ASCII,
   so it is both.

   `quote`         : urllib.parse.quote(v, safe='')  - the REPAIRED code (fixes/C19-*.diff): space -> %20
   `quote_plus`    : urllib.parse.quote_plus(v)      - the pinned source: space -> '+'   (`*_orig` below)   *)
From V Require Import lib.PyBase.
Open Scope N_scope.

(* ---------- characters ---------- *)
Definition SLASH : N := 47.
Definition PERCENT : N := 37.
Definition PLUS : N := 43.
Definition SPACE : N := 32.
Definition EQUALS : N := 61.
Definition AT : N := 64.

Definition is_nil {A} (l : list A) : bool := match l with [] => true | _ => false end.

(* ---------- str.encode('utf-8'), strict: lone surrogates and > U+10FFFF raise UnicodeEncodeError (a ValueError) *)
Definition utf8_char (c : N) : res (list N) :=
  if c <? 128 then Ok [c]
  else if c <? 2048 then Ok [192 + c / 64; 128 + c mod 64]
  else if c <? 65536 then
    if (55296 <=? c) && (c <? 57344) then Err ValueError
    else Ok [224 + c / 4096; 128 + (c / 64) mod 64; 128 + c mod 64]
  else if c <? 1114112 then
    Ok [240 + c / 262144; 128 + (c / 4096) mod 64; 128 + (c / 64) mod 64; 128 + c mod 64]
  else Err ValueError.

Fixpoint utf8 (s : str) : res (list N) :=
  match s with
  | [] => Ok []
  | c :: r => do b <- utf8_char c; do br <- utf8 r; Ok (b ++ br)
  end.

(* the matching decoder (what a reader of the gateway's label values does); strict about continuation bytes *)
Definition is_cont (b : N) : bool := (128 <=? b) && (b <? 192).
Fixpoint utf8_decode (bs : list N) : res str :=
  match bs with
  | [] => Ok []
  | b0 :: r =>
      if b0 <? 128 then do s <- utf8_decode r; Ok (b0 :: s)
      else if b0 <? 192 then Err ValueError
      else if b0 <? 224 then
        match r with
        | b1 :: r1 => if is_cont b1 then do s <- utf8_decode r1; Ok ((b0 - 192) * 64 + (b1 - 128) :: s)
                      else Err ValueError
        | _ => Err ValueError
        end
      else if b0 <? 240 then
        match r with
        | b1 :: b2 :: r2 =>
            if is_cont b1 && is_cont b2
            then do s <- utf8_decode r2; Ok ((b0 - 224) * 4096 + (b1 - 128) * 64 + (b2 - 128) :: s)
            else Err ValueError
        | _ => Err ValueError
        end
      else if b0 <? 248 then
        match r with
        | b1 :: b2 :: b3 :: r3 =>
            if is_cont b1 && is_cont b2 && is_cont b3
            then do s <- utf8_decode r3;
                 Ok ((b0 - 240) * 262144 + (b1 - 128) * 4096 + (b2 - 128) * 64 + (b3 - 128) :: s)
            else Err ValueError
        | _ => Err ValueError
        end
      else Err ValueError
  end.

(* ---------- urllib.parse.quote / quote_plus over bytes ---------- *)
(* _ALWAYS_SAFE = A-Z a-z 0-9 _ . - ~ *)
Definition unreserved (b : N) : bool :=
  ((65 <=? b) && (b <=? 90)) || ((97 <=? b) && (b <=? 122)) || ((48 <=? b) && (b <=? 57))
  || (b =? 95) || (b =? 46) || (b =? 45) || (b =? 126).

(* '{:02X}' digit *)
Definition hexdig (n : N) : N := if n <? 10 then 48 + n else 55 + n.

Definition quote_byte (b : N) : str :=
  if unreserved b then [b] else [PERCENT; hexdig (b / 16); hexdig (b mod 16)].
Definition quote_bytes (bs : list N) : str := flat_map quote_byte bs.

Definition quote_plus_byte (b : N) : str := if b =? SPACE then [PLUS] else quote_byte b.
Definition quote_plus_bytes (bs : list N) : str := flat_map quote_plus_byte bs.

(* ---------- base64.urlsafe_b64encode (with '=' padding) ---------- *)
Definition b64c (n : N) : N :=
  if n <? 26 then 65 + n
  else if n <? 52 then 71 + n        (* 'a' = 97 = 71 + 26 *)
  else if n <? 62 then n - 4         (* '0' = 48 = 52 - 4 *)
  else if n =? 62 then 45            (* '-' *)
  else 95.                           (* '_' *)

Fixpoint b64_encode (bs : list N) : str :=
  match bs with
  | [] => []
  | [a] => [b64c (a / 4); b64c ((a mod 4) * 16); EQUALS; EQUALS]
  | [a; b] => [b64c (a / 4); b64c ((a mod 4) * 16 + b / 16); b64c ((b mod 16) * 4); EQUALS]
  | a :: b :: c :: r =>
      b64c (a / 4) :: b64c ((a mod 4) * 16 + b / 16) :: b64c ((b mod 16) * 4 + c / 64) :: b64c (c mod 64)
      :: b64_encode r
  end.

(* ---------- _escape_grouping_key(k, v); v already str()-ed ---------- *)
Definition B64SUF : str := [64; 98; 97; 115; 101; 54; 52].      (* "@base64" *)

Section Escape.
  Variable quoter : list N -> str.       (* quote_bytes (repaired) or quote_plus_bytes (pinned source) *)
  Definition escape_gk_with (k v : str) : res (str * str) :=
    if is_nil v then Ok (k ++ B64SUF, [EQUALS])
    else if mem_char SLASH v then do bs <- utf8 v; Ok (k ++ B64SUF, b64_encode bs)
    else do bs <- utf8 v; Ok (k, quoter bs).
End Escape.
Definition escape_gk := escape_gk_with quote_bytes.
Definition escape_gk_orig := escape_gk_with quote_plus_bytes.

(* ---------- sorted(grouping_key.items()): keys are distinct str, so the order is by key, code-point
   lexicographic.  Stable insertion sort (= Python's sorted on any input without duplicate keys). ---------- *)
Definition key_le (a b : str * str) : bool := negb (str_ltb (fst b) (fst a)).
Fixpoint insert_item (x : str * str) (l : list (str * str)) : list (str * str) :=
  match l with
  | [] => [x]
  | y :: r => if str_ltb (fst x) (fst y) then x :: l else y :: insert_item x r
  end.
Fixpoint sort_items_aux (l acc : list (str * str)) : list (str * str) :=
  match l with [] => acc | x :: r => sort_items_aux r (insert_item x acc) end.
(* insert after equal keys while scanning left to right = stable *)
Definition sort_items (l : list (str * str)) : list (str * str) := sort_items_aux l [].

(* ---------- str.rstrip(c) ---------- *)
Fixpoint rstrip (c : N) (s : str) : str :=
  match s with
  | [] => []
  | x :: r => let r' := rstrip c r in if (x =? c) && is_nil r' then [] else x :: r'
  end.

(* ---------- _use_gateway ---------- *)
Definition HTTP_PREFIX : str := [104; 116; 116; 112; 58; 47; 47].   (* "http://" *)
Definition METRICS : str := [47; 109; 101; 116; 114; 105; 99; 115; 47].   (* "/metrics/" *)
Definition JOB : str := [106; 111; 98].   (* "job" *)
(* "Content-Type" and "text/plain; version=0.0.4; charset=utf-8"; the spellings are checked against s2l in proofs/GatewayProofs.v *)
Definition CT_NAME : str := [67; 111; 110; 116; 101; 110; 116; 45; 84; 121; 112; 101].
Definition CT_TEXT : str := [116; 101; 120; 116; 47; 112; 108; 97; 105; 110; 59; 32; 118; 101; 114; 115; 105; 111; 110; 61; 48; 46; 48; 46; 52; 59; 32; 99; 104; 97; 114; 115; 101; 116; 61; 117; 116; 102; 45; 56].

(* `has_scheme` is the answer of CPython's urlparse: scheme in ('http', 'https') *)
Definition gateway_base (has_scheme : bool) (gw : str) : str :=
  rstrip SLASH (if has_scheme then gw else HTTP_PREFIX ++ gw).

Fixpoint segments (l : list (str * str)) : str :=
  match l with
  | [] => []
  | (k, v) :: r => SLASH :: k ++ SLASH :: v ++ segments r
  end.

Fixpoint escape_all (esc : str -> str -> res (str * str)) (l : list (str * str)) : res (list (str * str)) :=
  match l with
  | [] => Ok []
  | (k, v) :: r => do kv <- esc k v; do rr <- escape_all esc r; Ok (kv :: rr)
  end.

Section Url.
  Variable esc : str -> str -> res (str * str).
  (* the job is escaped first (an un-encodable job raises before the grouping key is looked at; all the
     exceptions are UnicodeEncodeError, a ValueError, so the order is not observable in the class) *)
  Definition url_with (base job : str) (gk : list (str * str)) : res str :=
    do j <- esc JOB job;
    do l <- escape_all esc (sort_items gk);
    Ok (base ++ METRICS ++ fst j ++ SLASH :: snd j ++ segments l).
End Url.
Definition url_of := url_with escape_gk.
Definition url_of_orig := url_with escape_gk_orig.

Inductive meth := PUT | POST | DELETE.
Definition meth_name (m : meth) : str :=
  match m with PUT => [80; 85; 84] | POST => [80; 79; 83; 84] | DELETE => [68; 69; 76; 69; 84; 69] end.

Inductive api := Push | PushAdd | Delete.          (* the three public functions *)
Definition api_meth (a : api) : meth := match a with Push => PUT | PushAdd => POST | Delete => DELETE end.

(* what the handler is called with; the timeout is whatever the caller gave (type T); the body is a byte string *)
Record request (T : Type) := mkReq {
  rq_url : str; rq_method : str; rq_timeout : T; rq_headers : list (str * str); rq_body : list N }.
Arguments mkReq {T}. Arguments rq_url {T}. Arguments rq_method {T}. Arguments rq_timeout {T}.
Arguments rq_headers {T}. Arguments rq_body {T}.

(* `expo` is generate_latest(registry), the text exposition of the registry the caller gave (outside this model:
   C03/C05); ANY byte string, the empty one included (a registry without collectors, or whose collectors yield
   nothing).  The code has no branch on it: `data = b''` for DELETE, `data = generate_latest(registry)` otherwise. *)
Definition body_of (m : meth) (expo : list N) : list N := match m with DELETE => [] | _ => expo end.

Section Request.
  Variable esc : str -> str -> res (str * str).
  Definition request_with {T} (a : api) (has_scheme : bool) (gw job : str) (gk : list (str * str)) (expo : list N)
      (timeout : T) : res (request T) :=
    do u <- url_with esc (gateway_base has_scheme gw) job gk;
    Ok (mkReq u (meth_name (api_meth a)) timeout [(CT_NAME, CT_TEXT)] (body_of (api_meth a) expo)).

  (* the whole effect of one call of a public function: the list of requests given to the handler, in order; the
     callable the handler returns for a request is invoked once, right away.  _use_gateway ends in
     `handler(url=..., method=..., timeout=..., headers=..., data=...)()` on every path that does not raise. *)
  Definition calls_with {T} (a : api) (has_scheme : bool) (gw job : str) (gk : list (str * str)) (expo : list N)
      (timeout : T) : res (list (request T)) :=
    do r <- request_with a has_scheme gw job gk expo timeout; Ok [r].
End Request.
Definition request_of {T} := @request_with escape_gk T.
Definition request_of_orig {T} := @request_with escape_gk_orig T.
Definition calls_of {T} := @calls_with escape_gk T.
Definition calls_of_orig {T} := @calls_with escape_gk_orig T.

(* ---------- a PROCESS: successive calls of the three functions ----------
   The only mutable object _use_gateway hands out is the header list: a handler may change the list it is given
   (basic_auth_handler does `headers.append(('Authorization', ...))`, a custom handler may clear it, replace an entry,
   ...).  The list display `[('Content-Type', CONTENT_TYPE_LATEST)]` is evaluated inside _use_gateway, at every call:
   each call allocates a NEW list object.  The heap below holds the header-list objects of the process by address
   (= index); what a handler does to the object it was given stays in that object.  The body is `bytes`, the url and the
   method are `str`: immutable, nothing a handler does to them can outlive the call.                                   *)
Inductive hact :=
  | HKeep                           (* reads only *)
  | HAppend (kv : str * str)        (* headers.append(kv) *)
  | HClear                          (* headers.clear() / del headers[:] *)
  | HSet0 (kv : str * str)          (* headers[0] = kv   (IndexError on an empty list: nothing changes) *)
  | HInsert0 (kv : str * str)       (* headers.insert(0, kv) *)
  | HPop.                           (* headers.pop()     (IndexError on an empty list: nothing changes) *)
Definition hact_apply (a : hact) (l : list (str * str)) : list (str * str) :=
  match a with
  | HKeep => l
  | HAppend kv => l ++ [kv]
  | HClear => []
  | HSet0 kv => match l with [] => [] | _ :: r => kv :: r end
  | HInsert0 kv => kv :: l
  | HPop => removelast l
  end.
Definition hacts_apply (acts : list hact) (l : list (str * str)) : list (str * str) :=
  fold_left (fun l a => hact_apply a l) acts l.

Definition heap := list (list (str * str)).
Definition heap_alloc (h : heap) (l : list (str * str)) : heap * nat := (h ++ [l], length h).
Definition heap_read (h : heap) (a : nat) : list (str * str) := nth a h [].
Fixpoint heap_write (h : heap) (a : nat) (l : list (str * str)) : heap :=
  match h, a with
  | [], _ => []
  | _ :: r, O => l :: r
  | x :: r, S a' => x :: heap_write r a' l
  end.

(* one call: the arguments, and what the caller's handler does to the header list it receives *)
Record call (T : Type) := mkCall {
  c_api : api; c_hs : bool; c_gw : str; c_job : str; c_gk : list (str * str); c_expo : list N; c_timeout : T;
  c_acts : list hact }.
Arguments mkCall {T}. Arguments c_api {T}. Arguments c_hs {T}. Arguments c_gw {T}. Arguments c_job {T}.
Arguments c_gk {T}. Arguments c_expo {T}. Arguments c_timeout {T}. Arguments c_acts {T}.

Section Process.
  Variable esc : str -> str -> res (str * str).
  (* the call made alone, in a process that has issued nothing before *)
  Definition call_alone_with {T} (c : call T) : res (list (request T)) :=
    calls_with esc (c_api c) (c_hs c) (c_gw c) (c_job c) (c_gk c) (c_expo c) (c_timeout c).

  (* the call made in a process whose heap is h: what the handler SEES is the content of the freshly allocated object;
     afterwards the handler's actions are applied to that object.  A call that raises (un-encodable job or value) does
     so before the handler is reached: no object, no request. *)
  Definition call_in_with {T} (h : heap) (c : call T) : res (list (request T)) * heap :=
    match request_with esc (c_api c) (c_hs c) (c_gw c) (c_job c) (c_gk c) (c_expo c) (c_timeout c) with
    | Err e => (Err e, h)
    | Ok r =>
        let h1 := fst (heap_alloc h (rq_headers r)) in
        let a := snd (heap_alloc h (rq_headers r)) in
        let seen := mkReq (rq_url r) (rq_method r) (rq_timeout r) (heap_read h1 a) (rq_body r) in
        (Ok [seen], heap_write h1 a (hacts_apply (c_acts c) (heap_read h1 a)))
    end.

  (* successive calls in one process: the outcome of every call, in order, and the heap at the end *)
  Fixpoint seq_in_with {T} (h : heap) (cs : list (call T)) : list (res (list (request T))) * heap :=
    match cs with
    | [] => ([], h)
    | c :: r =>
        let o := call_in_with h c in
        let rest := seq_in_with (snd o) r in
        (fst o :: fst rest, snd rest)
    end.
End Process.
Definition call_alone {T} := @call_alone_with escape_gk T.
Definition call_alone_orig {T} := @call_alone_with escape_gk_orig T.
Definition seq_in {T} := @seq_in_with escape_gk T.
Definition seq_in_orig {T} := @seq_in_with escape_gk_orig T.
(* a fresh process: the empty heap *)
Definition calls_seq {T} (cs : list (call T)) : list (res (list (request T))) := fst (seq_in [] cs).
Definition calls_seq_orig {T} (cs : list (call T)) : list (res (list (request T))) := fst (seq_in_orig [] cs).

(* ====================================================================================================
   The Pushgateway side
   ==================================================================================================== *)

Definition hexval (c : N) : option N :=
  if (48 <=? c) && (c <=? 57) then Some (c - 48)
  else if (65 <=? c) && (c <=? 70) then Some (c - 55)
  else if (97 <=? c) && (c <=? 102) then Some (c - 87)
  else None.

(* percent-decoding.  plus_is_space = true : form style (Go url.QueryUnescape, Python unquote_plus)
                      plus_is_space = false: path style (Go url.PathUnescape - what net/http applies to the
                                             request path before the Pushgateway's router sees it)      *)
Fixpoint pct_decode (plus_is_space : bool) (s : str) : res (list N) :=
  match s with
  | [] => Ok []
  | c :: r =>
      if c =? PERCENT then
        match r with
        | h :: l :: r' =>
            match hexval h, hexval l with
            | Some a, Some b => do t <- pct_decode plus_is_space r'; Ok (16 * a + b :: t)
            | _, _ => Err ValueError
            end
        | _ => Err ValueError
        end
      else if plus_is_space && (c =? PLUS) then do t <- pct_decode plus_is_space r; Ok (SPACE :: t)
      else do t <- pct_decode plus_is_space r; Ok (c :: t)
  end.

(* URL-safe base64 alphabet, inverse of b64c *)
Definition b64v (c : N) : option N :=
  if (65 <=? c) && (c <=? 90) then Some (c - 65)
  else if (97 <=? c) && (c <=? 122) then Some (c - 71)
  else if (48 <=? c) && (c <=? 57) then Some (c + 4)
  else if c =? 45 then Some 62
  else if c =? 95 then Some 63
  else None.

(* base64.RawURLEncoding.DecodeString (no padding; non-strict about the unused low bits) *)
Fixpoint b64_decode_raw (s : str) : res (list N) :=
  match s with
  | [] => Ok []
  | [_] => Err ValueError
  | [x; y] =>
      match b64v x, b64v y with
      | Some p, Some q => Ok [p * 4 + q / 16]
      | _, _ => Err ValueError
      end
  | [x; y; z] =>
      match b64v x, b64v y, b64v z with
      | Some p, Some q, Some u => Ok [p * 4 + q / 16; (q mod 16) * 16 + u / 4]
      | _, _, _ => Err ValueError
      end
  | x :: y :: z :: w :: r =>
      match b64v x, b64v y, b64v z, b64v w with
      | Some p, Some q, Some u, Some t =>
          do rest <- b64_decode_raw r;
          Ok (p * 4 + q / 16 :: (q mod 16) * 16 + u / 4 :: (u mod 4) * 64 + t :: rest)
      | _, _, _, _ => Err ValueError
      end
  end.
(* the Pushgateway's decodeBase64: RawURLEncoding.DecodeString(strings.TrimRight(s, "=")); "=" alone is "" *)
Definition b64_decode (s : str) : res (list N) := b64_decode_raw (rstrip EQUALS s).

(* strings.Split(s, "/") : always at least one component *)
Fixpoint split_on (c : N) (s : str) : list str :=
  match s with
  | [] => [[]]
  | x :: r =>
      let l := split_on c r in
      if x =? c then [] :: l
      else match l with h :: t => (x :: h) :: t | [] => [[x]] end
  end.

(* strings.TrimSuffix(name, "@base64"): Some prefix when the suffix is there *)
Fixpoint strip_b64 (s : str) : option str :=
  if str_eqb s B64SUF then Some []
  else match s with
       | [] => None
       | c :: r => match strip_b64 r with Some p => Some (c :: p) | None => None end
       end.

(* model.LabelNameRE  ^[a-zA-Z_][a-zA-Z0-9_]*$   (Go: no trailing-newline quirk) *)
Definition name_start (c : N) : bool :=
  ((65 <=? c) && (c <=? 90)) || ((97 <=? c) && (c <=? 122)) || (c =? 95).
Definition name_char (c : N) : bool := name_start c || ((48 <=? c) && (c <=? 57)).
Definition legacy_name (s : str) : bool :=
  match s with [] => false | c :: r => name_start c && forallb name_char r end.

Section Decoder.
  Variable plus_is_space : bool.

  Definition decode_pair (name value : str) : res (str * list N) :=
    match strip_b64 name with
    | Some trimmed =>
        if legacy_name trimmed then do v <- b64_decode value; Ok (trimmed, v) else Err ValueError
    | None =>
        if legacy_name name then do v <- pct_decode plus_is_space value; Ok (name, v) else Err ValueError
    end.

  Fixpoint decode_pairs (l : list str) : res (list (str * list N)) :=
    match l with
    | [] => Ok []
    | [_] => Err ValueError                         (* odd number of components *)
    | n :: v :: r => do p <- decode_pair n v; do rest <- decode_pairs r; Ok (p :: rest)
    end.

  Fixpoint strip_prefix (p s : str) : option str :=
    match p, s with
    | [], _ => Some s
    | x :: p', y :: s' => if x =? y then strip_prefix p' s' else None
    | _ :: _, [] => None
    end.

  (* `base` is scheme://host[:port][/route-prefix]; the first pair must be the job.
     Result: label names with their values as BYTES (Go strings are byte strings). *)
  Definition pg_decode (base url : str) : res (list (str * list N)) :=
    match strip_prefix (base ++ METRICS) url with
    | None => Err ValueError
    | Some rest =>
        do l <- decode_pairs (split_on SLASH rest);
        match l with
        | (n, _) :: _ => if str_eqb n JOB then Ok l else Err ValueError
        | [] => Err ValueError
        end
    end.

  (* the same, with the values read as UTF-8 text *)
  Fixpoint decode_values (l : list (str * list N)) : res (list (str * str)) :=
    match l with
    | [] => Ok []
    | (k, b) :: r => do v <- utf8_decode b; do rr <- decode_values r; Ok ((k, v) :: rr)
    end.
  Definition pg_decode_text (base url : str) : res (list (str * str)) :=
    do l <- pg_decode base url; decode_values l.
End Decoder.

Definition pg_decode_path := pg_decode_text false.     (* the real Pushgateway: Go path un-escaping *)
Definition pg_decode_form := pg_decode_text true.      (* a form-style reader: '+' is a space *)

(* ---------- driver entry points (basic types only, names unique across the extracted models) ---------- *)
Definition gw_api_of_code (n : N) : api := if n =? 0 then Push else if n =? 1 then PushAdd else Delete.
Definition gw_request_cmd (repaired : bool) (api_code : N) (has_scheme : bool) (gw job : str)
    (gk : list (str * str)) (expo : list N) (timeout : N)
  : res (list (str * (str * (N * (list (str * str) * list N))))) :=
  do l <- (if repaired then calls_of else calls_of_orig) (gw_api_of_code api_code) has_scheme gw job gk expo timeout;
  Ok (map (fun r => (rq_url r, (rq_method r, (rq_timeout r, (rq_headers r, rq_body r))))) l).
(* a sequence of calls in one fresh process; handler actions travel as (code, (name, value)) *)
Definition gw_hact_of_code (c : N * (str * str)) : hact :=
  if fst c =? 0 then HKeep else if fst c =? 1 then HAppend (snd c) else if fst c =? 2 then HClear
  else if fst c =? 3 then HSet0 (snd c) else if fst c =? 4 then HInsert0 (snd c) else HPop.
Definition gw_call_of_code
    (c : N * (bool * (str * (str * (list (str * str) * (list N * (N * list (N * (str * str))))))))) : call N :=
  match c with
  | (a, (hs, (gw, (job, (gk, (expo, (t, acts))))))) =>
      mkCall (gw_api_of_code a) hs gw job gk expo t (map gw_hact_of_code acts)
  end.
Definition gw_seq_cmd (repaired : bool)
    (cs : list (N * (bool * (str * (str * (list (str * str) * (list N * (N * list (N * (str * str))))))))))
  : list (res (list (str * (str * (N * (list (str * str) * list N)))))) :=
  map (fun o => do l <- o;
                Ok (map (fun r => (rq_url r, (rq_method r, (rq_timeout r, (rq_headers r, rq_body r))))) l))
      ((if repaired then calls_seq else calls_seq_orig) (map gw_call_of_code cs)).
Definition gw_decode_cmd (plus_is_space : bool) (base url : str) : res (list (str * str)) :=
  pg_decode_text plus_is_space base url.
Definition gw_decode_bytes_cmd (plus_is_space : bool) (base url : str) : res (list (str * list N)) :=
  pg_decode plus_is_space base url.
Definition gw_utf8_cmd (s : str) : res (list N) := utf8 s.
Definition gw_utf8_decode_cmd (b : list N) : res str := utf8_decode b.
Definition gw_b64_encode_cmd (b : list N) : str := b64_encode b.
Definition gw_b64_decode_cmd (s : str) : res (list N) := b64_decode s.
Definition gw_quote_cmd (plus : bool) (b : list N) : str := if plus then quote_plus_bytes b else quote_bytes b.
Definition gw_pct_decode_cmd (plus_is_space : bool) (s : str) : res (list N) := pct_decode plus_is_space s.
Definition gw_sort_cmd (l : list (str * str)) : list (str * str) := sort_items l.

(* ---------- the same reading in the order Go really applies: net/http first un-escapes the WHOLE request path
   (URL.Path, path rules: '+' stays), the router then splits that on '/'.  Plain values are taken as they stand,
   name@base64 values are decoded; an empty segment does not route. ---------- *)
Definition decode_pair_go (name value : list N) : res (str * list N) :=
  if is_nil value then Err ValueError
  else match strip_b64 name with
       | Some trimmed => if legacy_name trimmed then do v <- b64_decode value; Ok (trimmed, v) else Err ValueError
       | None => if legacy_name name then Ok (name, value) else Err ValueError
       end.

Fixpoint decode_pairs_go (l : list (list N)) : res (list (str * list N)) :=
  match l with
  | [] => Ok []
  | [_] => Err ValueError
  | n :: v :: r => do p <- decode_pair_go n v; do rest <- decode_pairs_go r; Ok (p :: rest)
  end.

Definition pg_decode_go (base url : str) : res (list (str * list N)) :=
  match strip_prefix base url with
  | None => Err ValueError
  | Some path =>
      do raw <- pct_decode false path;
      match strip_prefix METRICS raw with
      | None => Err ValueError
      | Some rest =>
          do l <- decode_pairs_go (split_on SLASH rest);
          match l with
          | (n, _) :: _ => if str_eqb n JOB then Ok l else Err ValueError
          | [] => Err ValueError
          end
      end
  end.
Definition gw_decode_go_cmd (base url : str) : res (list (str * list N)) := pg_decode_go base url.

(* ---------- specification-side definitions used in the statements of props/C19.v ---------- *)
(* the UTF-8 bytes of every value of a grouping key *)
Fixpoint utf8_values (l : list (str * str)) : res (list (str * list N)) :=
  match l with
  | [] => Ok []
  | (k, v) :: r => do b <- utf8 v; do rr <- utf8_values r; Ok ((k, b) :: rr)
  end.
(* characters that may stand raw in an HTTP request path and keep their meaning there: unreserved, or one of / % = @
   (so never '?', '#', space, a control character, '+' or anything non-ASCII) *)
Definition path_char (c : N) : bool :=
  unreserved c || (c =? SLASH) || (c =? PERCENT) || (c =? EQUALS) || (c =? AT).
Definition path_ok (s : str) : Prop := Forall (fun c => path_char c = true) s.
