(* Model of prometheus_client/bridge/graphite.py: _sanitize and the line formatting of GraphiteBridge.push *)
From V Require Import lib.PyBase lib.PyStr model.Expo.
Open Scope N_scope.

Definition graphite_ok (c : char) : bool := is_alnum c || (c =? USCORE) || (c =? 45).
Definition sanitize (s : str) : str := map (fun c => if graphite_ok c then c else USCORE) s.

Definition SEMI : char := 59.
Definition gr_labelstr (tags : bool) (labels : list (str * str)) : str :=
  match labels with
  | [] => []
  | _ =>
      let sep := if tags then [SEMI] else [46] in
      let kv (p : str * str) := sanitize (fst p) ++ (if tags then [EQS] else [46]) ++ sanitize (snd p) in
      sep ++ join sep (map kv (sort_kv labels))
  end.

(* value text = str(float(v)) and now = int(timer()) are supplied by the caller *)
Definition gr_line (tags : bool) (prefix : str) (name : str) (labels : list (str * str)) (value now : str) : str :=
  (match prefix with [] => [] | _ => prefix ++ [46] end)
  ++ sanitize name ++ gr_labelstr tags labels ++ [SP] ++ value ++ [SP] ++ now ++ [LF].

Definition gr_push (tags : bool) (prefix now : str) (samples : list (str * list (str * str) * str)) : str :=
  flat_map (fun s => let '(n, l, v) := s in gr_line tags prefix n l v now) samples.
