(* Model of prometheus_client/parser.py (text format 0.0.4 parser), in the res monad so that every
   Python operation that can raise does so here too.  Index-based helpers keep Python's index results;
   `_is_character_escaped` (a backwards count of backslashes) becomes the parity of the backslash run
   carried left to right.  CPython's int()/float() are oracle arguments. *)
From V Require Import lib.PyBase lib.PyStr model.Validation.
Open Scope N_scope.

Definition WS_ASCII : list char := [32; 9; 10; 13; 11; 12].   (* string.whitespace *)

(* _next_unquoted_char(text, chs, startidx): scanning starts at index 0 only to know the parity of the
   backslash run in front of each position; quote state and matching start at [start]. *)
Fixpoint nuq (chs : list char) (l : str) (i start : Z) (par inq : bool) : Z :=
  match l with
  | [] => (-1)%Z
  | c :: r =>
      let par' := if c =? BS then negb par else false in
      if (i <? start)%Z then nuq chs r (i + 1)%Z start par' inq
      else
        let inq' := if (c =? DQ) && negb par then negb inq else inq in
        if negb inq' && mem_char c chs then i
        else nuq chs r (i + 1)%Z start par' inq'
  end.
Definition next_unquoted_char (text : str) (chs : list char) (start : Z) : Z :=
  nuq chs text 0%Z start false false.

(* _split_quoted(text, separator, maxsplit) *)
Fixpoint split_quoted_fuel (fuel : nat) (text : str) (chs : list char) (maxsplit : Z) (x : Z)
         (done : list str) (last : str) : res (list str) :=
  match fuel with
  | O => Err OutOfFuel
  | S f =>
      if (x <? zlen text)%Z then
        let sp := next_unquoted_char text chs x in
        if (sp =? -1)%Z then Ok (rev (slice_from text x :: done))
        else if (0 <? maxsplit)%Z && (maxsplit <? Z.of_nat (S (length done)))%Z
             then Ok (rev (slice_from text x :: done))
        else split_quoted_fuel f text chs maxsplit (sp + 1)%Z (slice text x sp :: done) []
      else Ok (rev (last :: done))
  end.
Definition split_quoted (text : str) (chs : list char) (maxsplit : Z) : res (list str) :=
  split_quoted_fuel (S (S (length text))) text chs maxsplit 0%Z [] [].

(* ESCAPING_RE.sub: BS BS -> BS, BS n -> LF, BS DQ -> DQ  (leftmost, non-overlapping) *)
Fixpoint replace_escaping (s : str) : str :=
  match s with
  | [] => []
  | c :: r =>
      if c =? BS then
        match r with
        | d :: r' => if d =? BS then BS :: replace_escaping r'
                     else if d =? CH_n then LF :: replace_escaping r'
                     else if d =? DQ then DQ :: replace_escaping r'
                     else c :: replace_escaping r
        | [] => [c]
        end
      else c :: replace_escaping r
  end.
(* HELP_ESCAPING_RE.sub: \\ -> \, \n -> LF *)
Fixpoint replace_help_escaping (s : str) : str :=
  match s with
  | [] => []
  | c :: r =>
      if c =? BS then
        match r with
        | d :: r' => if d =? BS then BS :: replace_help_escaping r'
                     else if d =? CH_n then LF :: replace_help_escaping r'
                     else c :: replace_help_escaping r
        | [] => [c]
        end
      else c :: replace_help_escaping r
  end.

(* _unquote_unescape.  [guard] = true is the repaired source (empty-after-strip returns ('', False));
   false is the pinned source, where text[0] on the stripped empty string raises IndexError. *)
Definition unquote_unescape_with (guard : bool) (text : str) : res (str * bool) :=
  match text with
  | [] => Ok ([], false)
  | _ =>
      let t := strip text in
      match t with
      | [] => if guard then Ok ([], false) else Err IndexError
      | c :: _ =>
          if c =? DQ then
            if (zlen t =? 1)%Z || negb (match last t 0 with d => d =? DQ end) then Err ValueError
            else Ok (replace_escaping (slice t 1 (-1)), true)
          else Ok (replace_escaping t, false)
      end
  end.

Section Parser.
  (* settings and CPython oracles *)
  Variable legacy : bool.                 (* PROMETHEUS_LEGACY_NAME_VALIDATION *)
  Variable guard_fix : bool.              (* see unquote_unescape_with *)
  Variable NUM : Type.                    (* a parsed number: Python int or float *)
  Variable parse_num : str -> option NUM. (* try int(s) except ValueError: float(s); None = ValueError *)
  Variable parse_float : str -> option NUM. (* float(s) *)
  Variable div1000 : NUM -> res NUM.      (* v / 1000: OverflowError for a huge int *)
  Variable ovf_fix : bool.                (* repaired source maps that OverflowError to ValueError *)

  Definition unquote_unescape := unquote_unescape_with guard_fix.

  Definition validate_labelname (s : str) : res unit :=
    if legacy then validate_labelname_legacy s else validate_labelname_utf8 s.

  (* _next_term *)
  Definition next_term (text : str) (om : bool) : res (str * str) :=
    do c0 <- index text 0;
    let k (text : str) : res (str * str) :=
      let sp0 := next_unquoted_char text [COMMA; RBRACE] 0 in
      let sp := if (sp0 =? -1)%Z then zlen text else sp0 in
      let term := slice_to text sp in
      match term with
      | [] => if om then Err ValueError else Ok (strip term, strip (slice_from text sp))
      | _ => Ok (strip term, strip (slice_from text sp))
      end in
    if c0 =? COMMA then
      let text1 := slice_from text 1 in
      match text1 with
      | [] => Ok ([], [])
      | c1 :: _ => if c1 =? COMMA then Err ValueError else k text1
      end
    else k text.

  (* index of the first DQ at position >= 1 not preceded by an odd run of backslashes; str.index raises
     ValueError when there is none *)
  Fixpoint find_close (l : str) (i : Z) (par : bool) : option Z :=
    match l with
    | [] => None
    | c :: r => if (c =? DQ) && negb par then Some i
                else find_close r (i + 1)%Z (if c =? BS then negb par else false)
    end.

  Definition S_name_key := Eval compute in s2l "__name__".

  Definition parse_one_label (term : str) (labels : assoc str str) : res (assoc str str) :=
    let op := next_unquoted_char term [EQS] 0 in
    do '(label_name, quoted_name, term1) <-
       (if (op =? -1)%Z then Ok (S_name_key, true, term)
        else do '(n, q) <- unquote_unescape (slice_to term op); Ok (n, q, slice_from term (op + 1)%Z));
    if negb quoted_name && negb (is_valid_legacy_metric_name label_name) then Err ValueError else
    let term2 := strip term1 in
    match term2 with
    | [] => Err ValueError
    | c :: rest =>
        if negb (c =? DQ) then Err ValueError else
        (* while i < len(term): i = term.index(DQ, i) ... *)
        do i <- (match rest with
                 | [] => Ok 1%Z
                 | _ => match find_close rest 1%Z false with Some i => Ok i | None => Err ValueError end
                 end);
        if negb (i + 1 =? zlen term2)%Z then Err ValueError else
        do '(label_value, _) <- unquote_unescape (slice_to term2 (i + 1)%Z);
        do _ <- (if str_eqb label_name S_name_key then Ok tt else validate_labelname label_name);
        if d_mem str_eqb labels label_name then Err ValueError
        else Ok (d_set str_eqb labels label_name label_value)
    end.

  Fixpoint parse_labels_fuel (fuel : nat) (sub : str) (om : bool) (labels : assoc str str)
    : res (assoc str str) :=
    match fuel with
    | O => Err OutOfFuel
    | S f =>
        match sub with
        | [] => Ok labels
        | _ =>
            do '(term, sub') <- next_term sub om;
            match term with
            | [] => if om then Err ValueError else parse_labels_fuel f sub' om labels
            | _ => do labels' <- parse_one_label term labels; parse_labels_fuel f sub' om labels'
            end
        end
    end.

  (* any ValueError inside is re-raised as ValueError; other exception classes propagate *)
  Definition parse_labels (labels_string : str) (om : bool) : res (assoc str str) :=
    let sub := strip labels_string in
    match sub with
    | c :: _ => if om && (c =? COMMA) then Err ValueError
                else parse_labels_fuel (S (S (length sub))) sub om []
    | [] => Ok []
    end.

  (* _parse_value *)
  Definition parse_value (v : str) : res NUM :=
    if negb (str_eqb v (strip v)) || mem_char USCORE v then Err ValueError
    else match parse_num v with Some x => Ok x | None => Err ValueError end.

  Definition nonblank (s : str) : bool := match strip s with [] => false | _ => true end.

  (* _parse_value_and_timestamp *)
  Definition parse_value_and_timestamp (s0 : str) : res (NUM * option NUM) :=
    let s := lstrip s0 in
    let sep := if mem_char SP s then SP else TAB in
    let values := map strip (filter nonblank (split_char sep s)) in
    match values with
    | [] => match parse_float s with Some x => Ok (x, None) | None => Err ValueError end
    | v0 :: rest =>
        do value <- parse_value v0;
        match rest with
        | [] => Ok (value, None)
        | _ => do t <- parse_value (last rest []);
               match div1000 t with
               | Ok ts => Ok (value, Some ts)
               | Err e => if ovf_fix then Err ValueError else Err e
               end
        end
    end.

  Record psample := { ps_name : str; ps_labels : assoc str str; ps_value : NUM; ps_ts : option NUM }.

  Definition S_exsep := Eval compute in s2l " # ".

  (* _parse_sample *)
  Definition parse_sample (text : str) : res psample :=
    let label_start := next_unquoted_char text [LBRACE] 0 in
    if (label_start =? -1)%Z || contains_sub S_exsep (slice_to text label_start) then
      let name_end := next_unquoted_char text [SP; TAB] 0 in
      let name := strip (slice_to text name_end) in
      if negb (is_valid_legacy_metric_name name) then Err ValueError else
      do '(v, ts) <- parse_value_and_timestamp (slice_from text (name_end + 1)%Z);
      Ok {| ps_name := name; ps_labels := []; ps_value := v; ps_ts := ts |}
    else
      let name := strip (slice_to text label_start) in
      let label_end := next_unquoted_char text [RBRACE] 0 in
      do labels <- parse_labels (slice text (label_start + 1)%Z label_end) false;
      do '(name', labels') <-
         (match name with
          | [] => match d_find str_eqb labels S_name_key with
                  | None => Err ValueError
                  | Some n => Ok (n, d_remove str_eqb labels S_name_key)
                  end
          | _ => if d_mem str_eqb labels S_name_key then Err ValueError else Ok (name, labels)
          end);
      do '(v, ts) <- parse_value_and_timestamp (slice_from text (label_end + 1)%Z);
      Ok {| ps_name := name'; ps_labels := labels'; ps_value := v; ps_ts := ts |}.

  (* ---- the line loop of text_fd_to_metric_families ---- *)
  Record pfamily := { pf_name : str; pf_doc : str; pf_type : str; pf_samples : list psample }.

  Definition S_total := Eval compute in s2l "_total".
  Definition S_counter := Eval compute in s2l "counter".
  Definition S_gauge := Eval compute in s2l "gauge".
  Definition S_summary := Eval compute in s2l "summary".
  Definition S_histogram := Eval compute in s2l "histogram".
  Definition S_untyped := Eval compute in s2l "untyped".
  Definition S_HELP := Eval compute in s2l "HELP".
  Definition S_TYPE := Eval compute in s2l "TYPE".
  Definition S_count := Eval compute in s2l "_count".
  Definition S_sum := Eval compute in s2l "_sum".
  Definition S_bucket := Eval compute in s2l "_bucket".

  Definition METRIC_TYPES : list str := Eval compute in
    map s2l ["counter"; "gauge"; "summary"; "histogram"; "gaugehistogram"; "unknown"; "info"; "stateset"]%string.
  Definition S_unknown := Eval compute in s2l "unknown".

  (* build_metric + Metric(name, documentation, typ): validates the name, maps untyped to unknown,
     rejects unknown type words.  Counter munging as in the source, including the `samples = new_samples`
     placed inside the loop (no effect when there are no samples). *)
  Definition build_metric (name doc typ : str) (samples : list psample) : res pfamily :=
    let '(name1, samples1) :=
      if str_eqb typ S_counter then
        if ends_with S_total name then (firstn (length name - 6) name, samples)
        else (name, map (fun s => {| ps_name := ps_name s ++ S_total; ps_labels := ps_labels s;
                                     ps_value := ps_value s; ps_ts := ps_ts s |}) samples)
      else (name, samples) in
    do _ <- (if legacy then validate_metric_name_legacy name1 else validate_metric_name_utf8 name1);
    let typ1 := if str_eqb typ S_untyped then S_unknown else typ in
    if mem_str typ1 METRIC_TYPES
    then Ok {| pf_name := name1; pf_doc := doc; pf_type := typ1; pf_samples := samples1 |}
    else Err ValueError.

  Record pstate := { st_name : str; st_doc : str; st_typ : str; st_samples : list psample;
                     st_allowed : list str }.
  Definition st_init := {| st_name := []; st_doc := []; st_typ := S_untyped; st_samples := [];
                           st_allowed := [] |}.

  Definition flush (st : pstate) : res (list pfamily) :=
    match st_name st with
    | [] => Ok []
    | _ => do m <- build_metric (st_name st) (st_doc st) (st_typ st) (rev (st_samples st)); Ok [m]
    end.

  Definition allowed_for (typ name : str) : list str :=
    let sfx := if str_eqb typ S_summary then [S_count; S_sum; []]
               else if str_eqb typ S_histogram then [S_count; S_sum; S_bucket]
               else [[]] in
    map (fun n => name ++ n) sfx.

  (* one line -> (new state, families yielded by this line) *)
  Definition step_line (st : pstate) (line0 : str) : res (pstate * list pfamily) :=
    let line := strip line0 in
    match line with
    | [] => Ok (st, [])
    | c :: _ =>
      if c =? HASH then
        do parts <- split_quoted line WS_ASCII 3;
        match parts with
        | _ :: kw :: rest =>
            do '(cand, _) <-
               (match rest with
                | p2 :: _ => do '(n, q) <- unquote_unescape p2;
                             if negb q && negb (is_valid_legacy_metric_name n) then Err ValueError else Ok (n, q)
                | [] => Ok ([], false)
                end);
            if str_eqb kw S_HELP then
              do '(st1, out) <-
                 (if negb (str_eqb cand (st_name st)) then
                    do out <- flush st;
                    Ok ({| st_name := cand; st_doc := st_doc st; st_typ := S_untyped; st_samples := [];
                           st_allowed := [cand] |}, out)
                  else Ok (st, []));
              let doc := match rest with [_; d] => replace_help_escaping d | _ => [] end in
              Ok ({| st_name := st_name st1; st_doc := doc; st_typ := st_typ st1;
                     st_samples := st_samples st1; st_allowed := st_allowed st1 |}, out)
            else if str_eqb kw S_TYPE then
              match rest with
              | [_; typ] =>
                  do '(st1, out) <-
                     (if negb (str_eqb cand (st_name st)) then
                        do out <- flush st;
                        Ok ({| st_name := cand; st_doc := []; st_typ := st_typ st; st_samples := [];
                               st_allowed := st_allowed st |}, out)
                      else Ok (st, []));
                  Ok ({| st_name := st_name st1; st_doc := st_doc st1; st_typ := typ;
                         st_samples := st_samples st1;
                         st_allowed := allowed_for typ (st_name st1) |}, out)
              | _ => Err ValueError
              end
            else Ok (st, [])
        | _ => Ok (st, [])
        end
      else
        do sample <- parse_sample line;
        if mem_str (ps_name sample) (st_allowed st) then
          Ok ({| st_name := st_name st; st_doc := st_doc st; st_typ := st_typ st;
                 st_samples := sample :: st_samples st; st_allowed := st_allowed st |}, [])
        else
          do out <- flush st;
          do m <- build_metric (ps_name sample) [] S_untyped [sample];
          Ok (st_init, out ++ [m])
    end.

  Fixpoint run_lines (st : pstate) (lines : list str) (acc : list pfamily) : res (list pfamily) :=
    match lines with
    | [] => do out <- flush st; Ok (acc ++ out)
    | l :: r => do '(st', out) <- step_line st l; run_lines st' r (acc ++ out)
    end.

  (* `for line in fd` on a StringIO: lines end at LF only; a trailing empty piece is not a line *)
  Definition text_parse (text : str) : res (list pfamily) :=
    let pieces := split_char LF text in
    let lines := match rev pieces with [] :: r => rev r | _ => pieces end in
    run_lines st_init lines [].
End Parser.
