(* Model of prometheus_client/metrics.py (single process, values.MutexValue cells):
   MetricWrapperBase.labels/remove/clear/_multi_samples/_samples/collect, Counter.inc/reset,
   Gauge.inc/dec/set, Summary.observe, Histogram._prepare_buckets/observe/_child_samples,
   Info.info, Enum.state.  Definitions only.

   Parametric in the float type.  Amounts are Python floats or Python ints (bools are ints):
   an int is converted when it meets a float cell (OverflowError above ~1.8e308), but `amount < 0`
   and `amount <= bound` on an int are exact comparisons, which is why `zlef` is separate from `fle`.

   `orig` selects the pinned source where it differs from the repaired tree (fixes/C01-*.diff):
     - Counter.reset() / Info.info() on a labelled parent: AttributeError (orig), ValueError (repaired);
     - Counter.reset() stores the int 0 (orig), so later int increments stay ints; 0.0 (repaired);
     - Summary.observe() increments _count before _sum (orig): a failing conversion of the amount
       leaves _count incremented; _sum first (repaired).
   Count cells (_count, bucket counts) only ever receive `+ 1` and are modelled as N (FL4).
   str() of label values, floatToGoString of the bounds, `_created` samples and exemplars are outside. *)
From V Require Import lib.PyBase.
Open Scope N_scope.

Definition key := list str.

Fixpoint key_eqb (a b : key) : bool :=
  match a, b with
  | [], [] => true
  | x :: a', y :: b' => str_eqb x y && key_eqb a' b'
  | _, _ => false
  end.

Fixpoint count_str (s : str) (l : list str) : nat :=
  match l with [] => O | x :: r => if str_eqb s x then S (count_str s r) else count_str s r end.

(* sorted(a) == sorted(b) for lists of str: equal as multisets *)
Definition multiset_eqb (a b : list str) : bool :=
  Nat.eqb (length a) (length b) && forallb (fun x => Nat.eqb (count_str x a) (count_str x b)) a.

Fixpoint index_of (s : str) (l : list str) : option nat :=
  match l with
  | [] => None
  | x :: r => if str_eqb s x then Some O else match index_of s r with Some i => Some (S i) | None => None end
  end.

Definition is_nil {A} (l : list A) : bool := match l with [] => true | _ => false end.

Fixpoint set_nth {A} (l : list A) (i : nat) (v : A) : list A :=
  match l, i with
  | [], _ => []
  | _ :: r, O => v :: r
  | x :: r, S j => x :: set_nth r j v
  end.

Definition SUF_total := Eval compute in s2l "_total".
Definition SUF_count := Eval compute in s2l "_count".
Definition SUF_sum := Eval compute in s2l "_sum".
Definition SUF_bucket := Eval compute in s2l "_bucket".
Definition SUF_info := Eval compute in s2l "_info".

Inductive mkind := KCounter | KGauge | KSummary | KHistogram | KInfo | KEnum.

Section Metrics.
  Variable F : Type.
  Variables fzero fone finf : F.
  Variable fadd : F -> F -> F.
  Variable fneg : F -> F.
  Variables flt fle feqb : F -> F -> bool.
  Variable of_Z : Z -> res F.            (* float(int): OverflowError when too large *)
  Variable zlef : Z -> F -> bool.        (* Python `int <= float`: exact *)

  Inductive amount := AFloat (x : F) | AInt (z : Z).
  Inductive cell := CF (v : F) | CI (z : Z).      (* a MutexValue._value: float, or int after the orig reset *)

  Inductive child :=
  | Ctr (c : cell)
  | Gge (v : F)
  | Smy (n : N) (s : F)
  | Hst (s : F) (cs : list N)                 (* _sum, non-cumulative bucket counts *)
  | Inf (kv : list (str * str))
  | Enm (i : nat).

  Inductive mop :=
  | Inc (a : amount) | Dec (a : amount) | SetV (a : amount) | Observe (a : amount) | Reset
  | InfoSet (kv : list (str * option str)) | State (s : str).

  (* how a call names its target: the metric object itself, or .labels(pos..., kw...) first *)
  Inductive addr := Parent | Lab (pos : list str) (kw : list (str * str)).

  Inductive mcall :=
  | CUpd (f : nat) (a : addr) (m : mop)        (* metric[.labels(..)].method(arg) *)
  | CLabels (f : nat) (a : addr)               (* metric.labels(..) alone *)
  | CRemove (f : nat) (vs : list str)          (* metric.remove(vs...) *)
  | CClear (f : nat).                          (* metric.clear() *)

  (* a mfamily, generic in what is kept per child: `child` for the model, the list of accepted
     operations for the specification (MetricsSpec.v) *)
  Record mfamily (C : Type) := mkMFamily {
    f_kind : mkind; f_name : str; f_labelnames : list str; f_bounds : list F; f_states : list str;
    f_solo : C;                               (* the metric's own cells; meaningful iff no label names *)
    f_children : list (key * C) }.            (* self._metrics, insertion ordered *)
  Arguments f_kind {C}. Arguments f_name {C}. Arguments f_labelnames {C}. Arguments f_bounds {C}.
  Arguments f_states {C}. Arguments f_solo {C}. Arguments f_children {C}.

  Definition with_solo {C} (fam : mfamily C) (c : C) : mfamily C :=
    mkMFamily C (f_kind fam) (f_name fam) (f_labelnames fam) (f_bounds fam) (f_states fam) c (f_children fam).
  Definition with_children {C} (fam : mfamily C) (ch : list (key * C)) : mfamily C :=
    mkMFamily C (f_kind fam) (f_name fam) (f_labelnames fam) (f_bounds fam) (f_states fam) (f_solo fam) ch.

  (* ---------- amounts ---------- *)
  Definition to_F (a : amount) : res F := match a with AFloat x => Ok x | AInt z => of_Z z end.
  Definition aneg (a : amount) : amount := match a with AFloat x => AFloat (fneg x) | AInt z => AInt (- z)%Z end.
  Definition alt0 (a : amount) : bool := match a with AFloat x => flt x fzero | AInt z => (z <? 0)%Z end.
  Definition ale (a : amount) (b : F) : bool := match a with AFloat x => fle x b | AInt z => zlef z b end.

  (* MutexValue.inc: self._value += amount *)
  Definition cell_add (c : cell) (a : amount) : res cell :=
    match c, a with
    | CF v, _ => do x <- to_F a; Ok (CF (fadd v x))
    | CI z, AInt y => Ok (CI (z + y)%Z)
    | CI z, AFloat x => do v <- of_Z z; Ok (CF (fadd v x))
    end.

  (* ---------- Histogram._prepare_buckets ---------- *)
  Fixpoint adj_sortedb (l : list F) : bool :=
    match l with
    | a :: ((b :: _) as r) => fle a b && adj_sortedb r
    | _ => true
    end.

  Definition prepare_buckets (src : list F) : res (list F) :=
    if negb (adj_sortedb src) then Err ValueError
    else
      let bs := match rev src with
                | l :: _ => if feqb l finf then src else src ++ [finf]
                | [] => src
                end in
      if Nat.ltb (length bs) 2 then Err ValueError else Ok bs.

  (* Histogram.observe: the first bound with amount <= bound gets the observation *)
  Fixpoint bump (bs : list F) (cs : list N) (a : amount) : list N :=
    match bs, cs with
    | b :: bs', c :: cs' => if ale a b then (c + 1) :: cs' else c :: bump bs' cs' a
    | _, _ => cs
    end.

  (* ---------- the state of a fresh (child) metric: _metric_init ---------- *)
  Definition init_child (k : mkind) (bounds : list F) : child :=
    match k with
    | KCounter => Ctr (CF fzero)
    | KGauge => Gge fzero
    | KSummary => Smy 0 fzero
    | KHistogram => Hst fzero (map (fun _ => 0) bounds)
    | KInfo => Inf []
    | KEnum => Enm O
    end.

  (* constructing a metric; names are validated elsewhere (validation.py), buckets and states here *)
  Definition mk_family (k : mkind) (name : str) (labelnames : list str) (buckets : list F) (states : list str)
    : res (mfamily child) :=
    match k with
    | KHistogram =>
        do bs <- prepare_buckets buckets;
        Ok (mkMFamily child k name labelnames bs [] (init_child k bs) [])
    | KEnum =>
        if is_nil states then Err ValueError
        else Ok (mkMFamily child k name labelnames [] states (init_child k []) [])
    | _ => Ok (mkMFamily child k name labelnames [] [] (init_child k []) [])
    end.

  (* ---------- labels(): which child a call addresses ---------- *)
  Fixpoint kw_values (kw : list (str * str)) (names : list str) : res (list str) :=
    match names with
    | [] => Ok []
    | l :: r => do v <- d_get str_eqb kw l; do vs <- kw_values kw r; Ok (v :: vs)
    end.

  (* Ok None: the metric object itself; Ok (Some key): the child with these label values *)
  Definition resolve (names : list str) (a : addr) : res (option key) :=
    match a with
    | Parent => Ok None
    | Lab pos kw =>
        if is_nil names then Err ValueError
        else if negb (is_nil pos) && negb (is_nil kw) then Err ValueError
        else if negb (is_nil kw) then
          if multiset_eqb (map fst kw) names
          then do vs <- kw_values kw names; Ok (Some vs)
          else Err ValueError
        else if Nat.eqb (length pos) (length names) then Ok (Some pos) else Err ValueError
    end.

  (* `if labelvalues not in self._metrics: self._metrics[labelvalues] = <fresh>` *)
  Definition ensure {C} (init : C) (ch : list (key * C)) (k : key) : list (key * C) :=
    match d_find key_eqb ch k with Some _ => ch | None => ch ++ [(k, init)] end.

  Definition child_at {C} (init : C) (ch : list (key * C)) (k : key) : C :=
    match d_find key_eqb ch k with Some c => c | None => init end.

  (* ---------- the update methods on an observable metric ---------- *)
  Fixpoint strip_info (kv : list (str * option str)) : option (list (str * str)) :=
    match kv with
    | [] => Some []
    | (k, Some v) :: r => match strip_info r with Some r' => Some ((k, v) :: r') | None => None end
    | (_, None) :: _ => None
    end.

  Definition overlaps (names : list str) (kv : list (str * option str)) : bool :=
    existsb (fun p => mem_str (fst p) names) kv.

  Definition apply_mop (orig : bool) (names : list str) (bounds : list F) (states : list str)
             (c : child) (m : mop) : child * res unit :=
    match c, m with
    | Ctr v, Inc a =>
        if alt0 a then (c, Err ValueError)
        else match cell_add v a with Ok v' => (Ctr v', Ok tt) | Err e => (c, Err e) end
    | Ctr _, Reset => (Ctr (if orig then CI 0%Z else CF fzero), Ok tt)
    | Gge v, Inc a => match to_F a with Ok x => (Gge (fadd v x), Ok tt) | Err e => (c, Err e) end
    | Gge v, Dec a => match to_F (aneg a) with Ok x => (Gge (fadd v x), Ok tt) | Err e => (c, Err e) end
    | Gge _, SetV a => match to_F a with Ok x => (Gge x, Ok tt) | Err e => (c, Err e) end
    | Smy n s, Observe a =>
        match to_F a with
        | Ok x => (Smy (n + 1) (fadd s x), Ok tt)
        | Err e => ((if orig then Smy (n + 1) s else c), Err e)
        end
    | Hst s cs, Observe a =>
        match to_F a with
        | Ok x => (Hst (fadd s x) (bump bounds cs a), Ok tt)
        | Err e => (c, Err e)
        end
    | Inf _, InfoSet kv =>
        if overlaps names kv then (c, Err ValueError)
        else match strip_info kv with Some kv' => (Inf kv', Ok tt) | None => (c, Err ValueError) end
    | Enm _, State s =>
        match index_of s states with Some i => (Enm i, Ok tt) | None => (c, Err ValueError) end
    | _, _ => (c, Err AttributeError)       (* no such method on this metric type *)
    end.

  (* does metric type k have this method at all *)
  Definition has_method (k : mkind) (m : mop) : bool :=
    match k, m with
    | KCounter, Inc _ | KCounter, Reset
    | KGauge, Inc _ | KGauge, Dec _ | KGauge, SetV _
    | KSummary, Observe _ | KHistogram, Observe _
    | KInfo, InfoSet _ | KEnum, State _ => true
    | _, _ => false
    end.

  (* a method called on a labelled parent (no cells): _raise_if_not_observable where present *)
  Definition parent_outcome (orig : bool) (k : mkind) (m : mop) : res unit :=
    if negb (has_method k m) then Err AttributeError
    else match m with
         | Reset | InfoSet _ => if orig then Err AttributeError else Err ValueError
         | _ => Err ValueError
         end.

  Definition mregistry := list (mfamily child).

  Definition put_family (r : mregistry) (f : nat) (fam : mfamily child) : mregistry := set_nth r f fam.

  Definition mstep_gen (orig : bool) (r : mregistry) (o : mcall) : mregistry * res unit :=
    match o with
    | CUpd f a m =>
        match nth_error r f with
        | None => (r, Err IndexError)
        | Some fam =>
            match resolve (f_labelnames fam) a with
            | Err e => (r, Err e)
            | Ok None =>
                if is_nil (f_labelnames fam) then
                  let (c', out) := apply_mop orig (f_labelnames fam) (f_bounds fam) (f_states fam) (f_solo fam) m in
                  (put_family r f (with_solo fam c'), out)
                else (r, parent_outcome orig (f_kind fam) m)
            | Ok (Some k) =>
                let init := init_child (f_kind fam) (f_bounds fam) in
                let ch := ensure init (f_children fam) k in
                let (c', out) := apply_mop orig (f_labelnames fam) (f_bounds fam) (f_states fam)
                                           (child_at init ch k) m in
                (put_family r f (with_children fam (d_set key_eqb ch k c')), out)
            end
        end
    | CLabels f a =>
        match nth_error r f with
        | None => (r, Err IndexError)
        | Some fam =>
            match resolve (f_labelnames fam) a with
            | Err e => (r, Err e)
            | Ok None => (r, Ok tt)
            | Ok (Some k) =>
                let init := init_child (f_kind fam) (f_bounds fam) in
                (put_family r f (with_children fam (ensure init (f_children fam) k)), Ok tt)
            end
        end
    | CRemove f vs =>
        match nth_error r f with
        | None => (r, Err IndexError)
        | Some fam =>
            if is_nil (f_labelnames fam) then (r, Err ValueError)
            else if negb (Nat.eqb (length vs) (length (f_labelnames fam))) then (r, Err ValueError)
            else (put_family r f (with_children fam (d_remove key_eqb (f_children fam) vs)), Ok tt)
        end
    | CClear f =>
        match nth_error r f with
        | None => (r, Err IndexError)
        | Some fam =>
            if is_nil (f_labelnames fam) then
              (* no _lock/_metrics on an unlabelled metric; Info and Enum happen to own a _lock *)
              match f_kind fam with
              | KInfo | KEnum => (r, Ok tt)
              | _ => (r, Err AttributeError)
              end
            else (put_family r f (with_children fam []), Ok tt)
        end
    end.

  Definition mstep := mstep_gen false.
  Definition mstep_orig := mstep_gen true.

  Definition mrun_gen (orig : bool) (r : mregistry) (ops : list mcall) : mregistry :=
    fold_left (fun r o => fst (mstep_gen orig r o)) ops r.
  Definition mrun := mrun_gen false.

  (* ---------- mcollect ---------- *)
  Inductive sval := VF (v : F) | VI (z : Z).
  Record msample := mkMSample { ms_name : str; ms_labels : list (str * str); ms_le : option F; ms_val : sval }.

  Definition cell_val (c : cell) : sval := match c with CF v => VF v | CI z => VI z end.

  (* Histogram._child_samples: acc += bucket *)
  Fixpoint accum (acc : N) (cs : list N) : list N :=
    match cs with [] => [] | c :: r => (acc + c) :: accum (acc + c) r end.

  (* the value of `acc` when the loop ends *)
  Definition total (cs : list N) : N := last (accum 0 cs) 0.

  Definition bucket_samples (name : str) (lbls : list (str * str)) (bounds : list F) (cum : list N) : list msample :=
    map (fun bc => mkMSample (name ++ SUF_bucket) lbls (Some (fst bc)) (VI (Z.of_N (snd bc)))) (combine bounds cum).

  Definition sum_exposed (bounds : list F) : bool :=
    match bounds with b :: _ => fle fzero b | [] => false end.

  Fixpoint enum_from (j : nat) (name : str) (lbls : list (str * str)) (states : list str) (i : nat) : list msample :=
    match states with
    | [] => []
    | s :: r =>
        mkMSample name (lbls ++ [(name, s)]) None (VI (if Nat.eqb j i then 1 else 0)%Z)
        :: enum_from (S j) name lbls r i
    end.
  Definition enum_samples := enum_from O.

  Definition child_samples (name : str) (bounds : list F) (states : list str)
             (lbls : list (str * str)) (c : child) : list msample :=
    match c with
    | Ctr v => [mkMSample (name ++ SUF_total) lbls None (cell_val v)]
    | Gge v => [mkMSample name lbls None (VF v)]
    | Smy n s => [mkMSample (name ++ SUF_count) lbls None (VI (Z.of_N n));
                  mkMSample (name ++ SUF_sum) lbls None (VF s)]
    | Hst s cs =>
        bucket_samples name lbls bounds (accum 0 cs)
        ++ [mkMSample (name ++ SUF_count) lbls None (VI (Z.of_N (total cs)))]
        ++ (if sum_exposed bounds then [mkMSample (name ++ SUF_sum) lbls None (VF s)] else [])
    | Inf kv => [mkMSample (name ++ SUF_info) (lbls ++ kv) None (VF fone)]
    | Enm i => enum_samples name lbls states i
    end.

  Definition family_samples (fam : mfamily child) : list msample :=
    let cs := child_samples (f_name fam) (f_bounds fam) (f_states fam) in
    if is_nil (f_labelnames fam) then cs [] (f_solo fam)
    else flat_map (fun kc => cs (combine (f_labelnames fam) (fst kc)) (snd kc)) (f_children fam).

  Definition mcollect (r : mregistry) : list msample := flat_map family_samples r.

End Metrics.

Arguments AFloat {F}. Arguments AInt {F}. Arguments CF {F}. Arguments CI {F}.
Arguments Ctr {F}. Arguments Gge {F}. Arguments Smy {F}. Arguments Hst {F}. Arguments Inf {F}. Arguments Enm {F}.
Arguments Inc {F}. Arguments Dec {F}. Arguments SetV {F}. Arguments Observe {F}. Arguments Reset {F}.
Arguments InfoSet {F}. Arguments State {F}.
Arguments CUpd {F}. Arguments CLabels {F}. Arguments CRemove {F}. Arguments CClear {F}.
Arguments VF {F}. Arguments VI {F}. Arguments mkMSample {F}. Arguments mkMFamily {F C}.
Arguments ms_name {F}. Arguments ms_labels {F}. Arguments ms_le {F}. Arguments ms_val {F}.
Arguments f_kind {F C}. Arguments f_name {F C}. Arguments f_labelnames {F C}. Arguments f_bounds {F C}.
Arguments f_states {F C}. Arguments f_solo {F C}. Arguments f_children {F C}.
Arguments with_solo {F C}. Arguments with_children {F C}.
Arguments to_F {F}. Arguments aneg {F}. Arguments alt0 {F}. Arguments ale {F}. Arguments cell_add {F}.
Arguments adj_sortedb {F}. Arguments prepare_buckets {F}. Arguments bump {F}. Arguments init_child {F}.
Arguments mk_family {F}. Arguments apply_mop {F}. Arguments has_method {F}. Arguments parent_outcome {F}.
Arguments put_family {F}. Arguments mstep_gen {F}. Arguments mstep {F}. Arguments mstep_orig {F}.
Arguments mrun_gen {F}. Arguments mrun {F}. Arguments cell_val {F}. Arguments bucket_samples {F}.
Arguments sum_exposed {F}. Arguments enum_from {F}. Arguments enum_samples {F}. Arguments child_samples {F}.
Arguments family_samples {F}. Arguments mcollect {F}.
