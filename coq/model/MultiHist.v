(* C08 over worker HISTORIES - the composition of model/Equiv.v (one process: metrics.py over the file-backed value
   store of values.py) into a multi-process run over ONE shared multiprocess directory:
     - every worker process has its own metric objects (the `shape` state of Equiv.mp: which children exist), all workers
       construct the same metrics `fams` / `metas` (the program text is the same in every worker);
     - the directory (Values.fs: file name -> key -> (value, timestamp), files in creation order) is shared; every step of
       worker p is Equiv.mp_step with process id p on the shared directory;
     - HStart p: a process with pid p starts and constructs its metrics (unlabelled metrics create their value objects
       at once: Equiv.mp_init_fs, now over the directory as it is - an existing file of that pid is re-opened and its
       keys keep their values: MmapedValue.__reset reads the stored pair).  If a worker with that pid was still
       registered it has ended without having been marked dead (the operating system reuses pids of ended processes only);
     - HDead p: the worker has ended and the master calls multiprocess.mark_process_dead(p): the five live-mode gauge
       files of that pid are removed (the same name test as Multiproc.mark_dead) and the worker issues no more calls;
     - a call of a pid that is not running is ignored.
   Collection at any point = Equiv.collect_mp of the directory (files in directory order).
   Definitions only.  Parametric in the float type. *)
From V Require Import lib.PyBase.
From V Require model.Multiproc model.Values.
From V Require Import model.Metrics model.Equiv.
Open Scope N_scope.

(* the class of a file prefix: gauge_{mode} for the five live modes *)
Definition live_prefix (pre : Values.prefix) : bool :=
  mem_str (prefix_str pre) (map (fun m => Multiproc.S_gauge ++ Multiproc.US :: m) Multiproc.LIVE_MODES).

Section MultiHist.
  Variable F : Type.
  Variables fzero fone : F.
  Variable fadd : F -> F -> F.
  Variable fneg : F -> F.
  Variables flt fle feqb : F -> F -> bool.
  Variable of_Z : Z -> res F.
  Variable zlef : Z -> F -> bool.
  Variable fmt_le : F -> str.

  Notation fs := (Values.fs F).
  Notation shape := (shape F).
  Notation mp_step := (mp_step F fzero fone fadd fneg flt fle feqb of_Z zlef fmt_le).

  Inductive hstep :=
  | HStart (pid : str)
  | HCall (pid : str) (now : F) (o : mcall F)
  | HDead (pid : str).

  Definition hpid (st : hstep) : str := match st with HStart p | HCall p _ _ | HDead p => p end.

  (* the running workers: pid -> the children its metric objects hold *)
  Record mh := mkMH { h_procs : assoc str (list shape); h_fs : fs }.

  Definition mh_init : mh := mkMH [] [].

  (* mark_process_dead(pid) on the directory: remove gauge_{mode}_{pid}.db for the five live modes *)
  Definition dead_name (pid : str) (n : str) : bool :=
    mem_str n (map (fun m => Multiproc.gauge_fname m pid) Multiproc.LIVE_MODES).
  Definition fs_mark_dead (pid : str) (d : fs) : fs :=
    filter (fun fc => negb (dead_name pid (fname_str (fst fc)))) d.

  Definition mh_step (fams : list shape) (metas : list fmeta) (s : mh) (st : hstep) : mh * res unit :=
    match st with
    | HStart p =>
        (mkMH (d_set str_eqb (h_procs s) p fams) (mp_init_fs F fzero fmt_le p fams metas (h_fs s)), Ok tt)
    | HCall p now o =>
        match d_find str_eqb (h_procs s) p with
        | None => (s, Ok tt)
        | Some sh =>
            let (q, out) := mp_step metas p (mkMp F sh (h_fs s)) now o in
            (mkMH (d_set str_eqb (h_procs s) p (p_shape F q)) (p_fs F q), out)
        end
    | HDead p => (mkMH (d_remove str_eqb (h_procs s) p) (fs_mark_dead p (h_fs s)), Ok tt)
    end.

  Definition mp_run_multi (fams : list shape) (metas : list fmeta) (s : mh) (steps : list hstep) : mh :=
    fold_left (fun s st => fst (mh_step fams metas s st)) steps s.

  (* the steps of one worker *)
  Definition steps_of (p : str) (steps : list hstep) : list hstep := filter (fun st => str_eqb (hpid st) p) steps.

  (* the files of one pid, in directory order *)
  Definition fs_of_pid (p : str) (d : fs) : fs := filter (fun fc => str_eqb (snd (fst fc)) p) d.

  (* what became of the worker with pid p: None = never started; Some (ops, dead) = the calls its (last) process
     performed while it ran, and whether it has been marked dead since *)
  Definition life := option (list (F * mcall F) * bool).
  Definition life_step (p : str) (l : life) (st : hstep) : life :=
    if str_eqb (hpid st) p then
      match st, l with
      | HStart _, _ => Some ([], false)
      | HCall _ now o, Some (ops, false) => Some (ops ++ [(now, o)], false)
      | HCall _ _ _, _ => l
      | HDead _, Some (ops, _) => Some (ops, true)
      | HDead _, None => None
      end
    else l.
  Definition life_of (p : str) (steps : list hstep) : life := fold_left (life_step p) steps None.

  (* the pids started, in order of their starts *)
  Fixpoint starts (steps : list hstep) : list str :=
    match steps with
    | [] => []
    | HStart p :: r => p :: starts r
    | _ :: r => starts r
    end.

  (* ----- pid reuse: which calls explain the files of a pid -----
     the files of a pid fall in two classes: the live-mode gauge files, which mark_process_dead removes, and all others,
     which successive processes with that pid re-open and continue *)
  Record life2 := mkL2 { l_all : option (list (F * mcall F));     (* every call ever made under the pid; None = never started *)
                         l_live : option (list (F * mcall F));    (* the calls since the pid was last marked dead; None = not started since *)
                         l_alive : bool }.
  Definition or_nil {X} (o : option (list X)) : option (list X) := match o with Some l => Some l | None => Some [] end.
  Definition snoc_opt {X} (o : option (list X)) (x : X) : option (list X) := match o with Some l => Some (l ++ [x]) | None => None end.
  Definition life2_step (p : str) (l : life2) (st : hstep) : life2 :=
    if str_eqb (hpid st) p then
      match st with
      | HStart _ => mkL2 (or_nil (l_all l)) (or_nil (l_live l)) true
      | HCall _ now o => if l_alive l then mkL2 (snoc_opt (l_all l) (now, o)) (snoc_opt (l_live l) (now, o)) true else l
      | HDead _ => mkL2 (l_all l) None false
      end
    else l.
  Definition life2_of (p : str) (steps : list hstep) : life2 := fold_left (life2_step p) steps (mkL2 None None false).
  Definition src_ops (p : str) (live : bool) (steps : list hstep) : option (list (F * mcall F)) :=
    if live then l_live (life2_of p steps) else l_all (life2_of p steps).
End MultiHist.

Arguments HStart {F}. Arguments HCall {F}. Arguments HDead {F}.
