(* What a decimal literal denotes: (negative?, mantissa m, exponent e) standing for (+/-) m * 10^e.
   Used as the specification side of C13 (value preservation, injectivity). *)
From V Require Import lib.PyBase model.Utils.
Open Scope N_scope.

Fixpoint all_digits (s : str) : bool :=
  match s with [] => true | c :: r => is_digit c && all_digits r end.

(* split at the first occurrence of c *)
Fixpoint split_at (c : char) (s : str) : str * option str :=
  match s with
  | [] => ([], None)
  | x :: r => if N.eqb x c then ([], Some r)
              else let '(a, b) := split_at c r in (x :: a, b)
  end.

Definition nonempty (s : str) : bool := match s with [] => false | _ => true end.

Definition denote_exp (s : option str) : option Z :=
  match s with
  | None => Some 0%Z
  | Some (sg :: ds) =>
      if nonempty ds && all_digits ds then
        if N.eqb sg PLUS then Some (Z.of_N (digits_val 0 ds))
        else if N.eqb sg MINUS then Some (- Z.of_N (digits_val 0 ds))%Z
        else None
      else None
  | Some [] => None
  end.

Definition denote (s : str) : option (N * Z) :=
  let '(mant, ex) := split_at CH_e s in
  let '(i, fo) := split_at DOT mant in
  let f := match fo with Some f => f | None => [] end in
  let f_ok := match fo with Some f => nonempty f | None => true end in
  if nonempty i && all_digits i && all_digits f && f_ok then
    match denote_exp ex with
    | Some e => Some (digits_val 0 (i ++ f), (e - Z.of_nat (length f))%Z)
    | None => None
    end
  else None.

Definition denote_signed (s : str) : option (bool * (N * Z)) :=
  match s with
  | c :: r => if N.eqb c MINUS then option_map (fun v => (true, v)) (denote r)
              else option_map (fun v => (false, v)) (denote s)
  | [] => None
  end.

(* m1 * 10^e1 = m2 * 10^e2, stated over Z without division *)
Definition same_value (a b : N * Z) : Prop :=
  let '(m1, e1) := a in let '(m2, e2) := b in
  let e := Z.min e1 e2 in
  (Z.of_N m1 * 10 ^ (e1 - e) = Z.of_N m2 * 10 ^ (e2 - e))%Z.

Definition same_signed (a b : bool * (N * Z)) : Prop :=
  (* equal sign, or both zero *)
  same_value (snd a) (snd b) /\ (fst a = fst b \/ fst (snd a) = 0).
