(* Declarative side of C08: what the collector must report for one series, as a function of the contributions
   (the entries of that series in the files, in read order).  Definitions only. *)
From V Require Import lib.PyBase model.Multiproc.
Open Scope N_scope.

Section Spec.
  Variable F : Type.
  Variable fzero : F.
  Variable fadd : F -> F -> F.
  Variable flt : F -> F -> bool.
  Variable feqb : F -> F -> bool.

  Notation file := (file F).
  Notation sample := (sample F).
  Definition fentry := (file * (key * (F * F)))%type.

  (* the entries of all files in read order, each with the header of its file *)
  Definition stream (files : list file) : list fentry :=
    flat_map (fun f => map (fun e => (f, e)) (f_entries F f)) files.
  Definition entries_of (mname : str) (files : list file) : list fentry :=
    filter (fun fe => str_eqb mname (k_metric (fst (snd fe)))) (stream files).

  Definition is_gauge_file (f : file) : bool := str_eqb (f_typ F f) S_gauge.

  (* the sample an entry contributes: gauges get the pid of their file as a label *)
  Definition sample_of (fe : fentry) : sample :=
    let '(f, (k, (v, ts))) := fe in
    if is_gauge_file f then mkSample F (k_name k) (k_labels k ++ [(S_pid, f_pid F f)]) v ts
    else mkSample F (k_name k) (k_labels k) v fzero.

  (* metric._multiprocess_mode: the mode of the last gauge file read *)
  Definition mode_after (m0 : str) (es : list fentry) : str :=
    fold_left (fun md fe => if is_gauge_file (fst fe) then f_mode F (fst fe) else md) es m0.

  (* ----- per-series aggregates over the contributions in read order ----- *)
  Definition agg_sum (l : list F) : option F :=
    match l with [] => None | _ => Some (fold_left fadd l fzero) end.
  Definition pick_min (c v : F) : F := if flt v c then v else c.
  Definition pick_max (c v : F) : F := if flt c v then v else c.
  Definition agg_min (l : list F) : option F :=
    match l with [] => None | x :: r => Some (fold_left pick_min r x) end.
  Definition agg_max (l : list F) : option F :=
    match l with [] => None | x :: r => Some (fold_left pick_max r x) end.
  Definition agg_last (l : list F) : option F :=
    match l with [] => None | x :: r => Some (last r x) end.
  (* (value, set-time): strictly later set-time replaces; start at set-time 0 with no value *)
  Definition mr_step (st : option F * F) (vt : F * F) : option F * F :=
    let t := ts_norm F fzero feqb (snd vt) in
    if flt (snd st) t then (Some (fst vt), t) else st.
  Definition agg_mr (l : list (F * F)) : option F := fst (fold_left mr_step l (None, fzero)).

  (* contributions of one series *)
  Definition contribs (keyf : sample -> skey) (ss : list sample) (k : skey) : list sample :=
    filter (fun s => skey_eqb k (keyf s)) ss.

  Definition spec_gauge (mode : str) (ss : list sample) (k : skey) : option F :=
    if is_mode M_min M_livemin mode then agg_min (map (s_value F) (contribs (without_pid F) ss k))
    else if is_mode M_max M_livemax mode then agg_max (map (s_value F) (contribs (without_pid F) ss k))
    else if is_mode M_sum M_livesum mode then agg_sum (map (s_value F) (contribs (without_pid F) ss k))
    else if is_mode M_mostrecent M_livemostrecent mode then
      agg_mr (map (fun s => (s_value F s, s_ts F s)) (contribs (without_pid F) ss k))
    else agg_last (map (s_value F) (contribs (full_key F) ss k)).

  Definition spec_plain (ss : list sample) (k : skey) : option F :=
    agg_sum (map (s_value F) (contribs (full_key F) ss k)).
End Spec.

(* ----- histogram: the groups (labels without le) with their per-bound sums, and what is written for them ----- *)
Section HistSpec.
  Variable F : Type.
  Variable fzero : F.
  Variable fadd : F -> F -> F.
  Variable flt : F -> F -> bool.
  Variable feqb : F -> F -> bool.
  Variable parse_le : str -> F.
  Variable fmt_le : F -> str.
  Notation sample := (sample F).

  (* (bound, value) contributions of the bucket series with labels ls (le removed), in read order *)
  Definition group_items (ss : list sample) (ls : labels) : list (F * F) :=
    vals_of labels_eqb ls (map (bucket_item F parse_le) (filter (has_le F) ss)).
  Definition hist_groups (ss : list sample) : assoc labels (assoc F F) :=
    dfold labels_eqb (upd_bucket F fzero fadd feqb) [] (map (bucket_item F parse_le) (filter (has_le F) ss)).
  Definition hist_writes (mname : str) (ss : list sample) : list (skey * F) :=
    flat_map (bucket_writes F fzero fadd flt fmt_le mname) (hist_groups ss).

  (* running sums: acc + v1, acc + v1 + v2, ... *)
  Fixpoint prefix_sums (acc : F) (l : list F) : list F :=
    match l with [] => [] | v :: r => fadd acc v :: prefix_sums (fadd acc v) r end.
  Definition bucket_key (mname : str) (ls : labels) (b : F) : skey := (mname ++ S_bucket, ls ++ [(S_le, fmt_le b)]).
  Definition count_key (mname : str) (ls : labels) : skey := (mname ++ S_count, ls).

  (* what the collector reports for series k of a family, given the family's type, mode, name and samples *)
  Definition spec_series (typ mode mname : str) (ss : list sample) (k : skey) : option F :=
    if str_eqb typ S_gauge then spec_gauge F fzero fadd flt feqb mode ss k
    else if str_eqb typ S_histogram then
      find_last skey_eqb (hist_writes mname ss) k
        (spec_plain F fzero fadd (filter (fun s => negb (has_le F s)) ss) k)
    else spec_plain F fzero fadd ss k.
End HistSpec.
