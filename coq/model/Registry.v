(* Model of prometheus_client/registry.py (CollectorRegistry, RestrictedRegistry) and of
   Metric._restricted_metric in metrics_core.py.  Definitions only.

   Collectors are abstract: a collector object is identified by a [cid]; what it does is given by an
   environment [env : cid -> cbeh] (the result of its describe(), if it has one, and the families its
   collect() returns).  Sample payloads (value, timestamp, exemplar) are one opaque token.

   Three places of the pinned source violate C06/C07 and were repaired (fixes/C06-*.diff, fixes/C07-*.diff);
   the main definitions describe the repaired code, the [_orig] ones the pinned code:
     get_names_orig      : _get_names returned the raw list, possibly with repeated names        (F6)
     restricted_metric_orig : _restricted_metric dropped the unit                                (F7)
     select_orig         : RestrictedRegistry.collect never looked up the name 'target_info'     (F18)
     merge = false       : register overwrote the names recorded for an already registered collector (F20) *)
From V Require Import lib.PyBase.
Open Scope N_scope.

Definition cid := N.

Inductive typ := TCounter | TGauge | TSummary | THistogram | TGaugeHistogram | TUnknown | TInfo | TStateset.

Definition labels := list (str * str).

Record sample := mk_sample { s_name : str; s_labels : labels; s_tok : N }.

Record family := mk_family { f_name : str; f_typ : typ; f_help : str; f_unit : str; f_samples : list sample }.

(* describe() yields objects of which the registry reads only .name and .type *)
Record cbeh := mk_cbeh { c_describe : option (list (str * typ)); c_fams : list family }.

Inductive owner := Coll (c : cid) | TargetInfo.

Record reg := mk_reg {
  c2n : assoc cid (list str);      (* _collector_to_names *)
  n2c : assoc str owner;           (* _names_to_collectors *)
  ti : labels;                     (* _target_info; None and {} are both [] *)
  auto : bool }.                   (* _auto_describe *)

Definition empty_reg (a : bool) : reg := mk_reg [] [] [] a.

(* string constants as code points (kept free of Coq's [string] so that extraction stays within list N);
   RegistryProofs.str_constants_ok checks each against its literal *)
Definition TI_NAME : str := [116; 97; 114; 103; 101; 116; 95; 105; 110; 102; 111].   (* target_info *)
Definition S_total : str := [95; 116; 111; 116; 97; 108].
Definition S_created : str := [95; 99; 114; 101; 97; 116; 101; 100].
Definition S_sum : str := [95; 115; 117; 109].
Definition S_count : str := [95; 99; 111; 117; 110; 116].
Definition S_bucket : str := [95; 98; 117; 99; 107; 101; 116].
Definition S_gsum : str := [95; 103; 115; 117; 109].
Definition S_gcount : str := [95; 103; 99; 111; 117; 110; 116].
Definition S_info : str := [95; 105; 110; 102; 111].
Definition S_target : str := [116; 97; 114; 103; 101; 116].
Definition S_target_help : str := [84; 97; 114; 103; 101; 116; 32; 109; 101; 116; 97; 100; 97; 116; 97].   (* Target metadata *)

(* registry.py:76-82  type_suffixes *)
Definition suffixes (t : typ) : list str :=
  match t with
  | TCounter => [S_total; S_created]
  | TSummary => [S_sum; S_count; S_created]
  | THistogram => [S_bucket; S_sum; S_count; S_created]
  | TGaugeHistogram => [S_bucket; S_gsum; S_gcount]
  | TInfo => [S_info]
  | TGauge | TUnknown | TStateset => []
  end.

Definition names_of_family (nt : str * typ) : list str :=
  fst nt :: map (fun s => fst nt ++ s) (suffixes (snd nt)).

Definition names_of_desc (d : list (str * typ)) : list str := flat_map names_of_family d.

(* what desc_func() returns: describe() if the collector has one, else collect() under auto_describe *)
Definition described (a : bool) (c : cbeh) : list (str * typ) :=
  match c_describe c with
  | Some d => d
  | None => if a then map (fun f => (f_name f, f_typ f)) (c_fams c) else []
  end.

(* registry.py:57-84 as pinned *)
Definition get_names_orig (a : bool) (c : cbeh) : list str := names_of_desc (described a c).

(* first occurrence kept, order kept: list(dict.fromkeys(result)) *)
Fixpoint dedup (l : list str) : list str :=
  match l with
  | [] => []
  | x :: r => x :: filter (fun y => negb (str_eqb y x)) (dedup r)
  end.

Definition get_names (a : bool) (c : cbeh) : list str := dedup (get_names_orig a c).

Section Registry.
  Variable env : cid -> cbeh.

  (* names recorded for c so far ([] when it is not registered) *)
  Definition recorded (r : reg) (c : cid) : list str :=
    match d_find N.eqb (c2n r) c with Some ns => ns | None => [] end.

  Section Gen.
  Variable gn : bool -> cbeh -> list str.       (* _get_names *)
  Variable merge : bool.   (* true: a collector registered again keeps the names recorded earlier (repaired code) *)

  (* registry.py:37-48 *)
  Definition register_gen (r : reg) (c : cid) : reg * option exn :=
    let names := gn (auto r) (env c) in
    if existsb (d_mem str_eqb (n2c r)) names then (r, Some ValueError)
    else (mk_reg (d_set N.eqb (c2n r) c ((if merge then recorded r c else []) ++ names))
                 (fold_left (fun d n => d_set str_eqb d n (Coll c)) names (n2c r))
                 (ti r) (auto r), None).

  End Gen.

  (* `for name in names: del n2c[name]`: stops at the first missing key, keeping the deletions made *)
  Fixpoint del_names (d : assoc str owner) (ns : list str) : assoc str owner * bool :=
    match ns with
    | [] => (d, true)
    | n :: rest => if d_mem str_eqb d n then del_names (d_remove str_eqb d n) rest else (d, false)
    end.

  (* registry.py:50-55 *)
  Definition unregister (r : reg) (c : cid) : reg * option exn :=
    match d_find N.eqb (c2n r) c with
    | None => (r, Some KeyError)
    | Some ns =>
        let (d', ok) := del_names (n2c r) ns in
        if ok then (mk_reg (d_remove N.eqb (c2n r) c) d' (ti r) (auto r), None)
        else (mk_reg (c2n r) d' (ti r) (auto r), Some KeyError)
    end.

  Definition nonempty {A} (l : list A) : bool := match l with [] => false | _ => true end.

  (* registry.py:116-124 *)
  Definition set_target_info (r : reg) (l : labels) : reg * option exn :=
    if nonempty l then
      if negb (nonempty (ti r)) && d_mem str_eqb (n2c r) TI_NAME then (r, Some ValueError)
      else (mk_reg (c2n r) (d_set str_eqb (n2c r) TI_NAME TargetInfo) l (auto r), None)
    else
      (mk_reg (c2n r) (if nonempty (ti r) then d_remove str_eqb (n2c r) TI_NAME else n2c r) l (auto r), None).

  (* Nop: anything that is not a call on the registry - a collector changing what it describes or collects,
     created series being switched on or off; the environment may differ from one step to the next *)
  Inductive op := Register (c : cid) | Unregister (c : cid) | SetTargetInfo (l : labels) | Nop.

  Definition step_gen gn merge (r : reg) (o : op) : reg * option exn :=
    match o with
    | Register c => register_gen gn merge r c
    | Unregister c => unregister r c
    | SetTargetInfo l => set_target_info r l
    | Nop => (r, None)
    end.

  (* a history during which no collector changes *)
  Definition run_gen gn merge (r : reg) (ops : list op) : reg :=
    fold_left (fun r o => fst (step_gen gn merge r o)) ops r.

  Definition register := register_gen get_names true.
  Definition register_orig := register_gen get_names_orig false.
  Definition step := step_gen get_names true.
  Definition step_orig := step_gen get_names_orig false.
  Definition run := run_gen get_names true.
  Definition run_orig := run_gen get_names_orig false.

  (* registry.py:130-133 *)
  Definition ti_family (r : reg) : list family :=
    match ti r with
    | [] => []
    | l => [mk_family S_target TInfo S_target_help [] [mk_sample TI_NAME l 1]]
    end.

  (* registry.py:86-97 *)
  Definition collect (r : reg) : list family :=
    ti_family r ++ flat_map (fun p => c_fams (env (fst p))) (c2n r).

  Definition opt_list {A} (o : option A) : list A := match o with Some x => [x] | None => [] end.

  (* metrics_core.py:58-65; [keep_unit = false] is the pinned code *)
  Definition restricted_metric_gen (keep_unit : bool) (ns : list str) (f : family) : option family :=
    match filter (fun s => mem_str (s_name s) ns) (f_samples f) with
    | [] => None
    | ss => Some (mk_family (f_name f) (f_typ f) (f_help f) (if keep_unit then f_unit f else []) ss)
    end.

  Definition add_cid (c : cid) (l : list cid) : list cid := if existsb (N.eqb c) l then l else l ++ [c].

  (* registry.py:159-165: the set of collectors owning one of the names ([skip_ti = true] is the pinned code);
     the _EmptyCollector standing for target info collects nothing and is not a registered collector *)
  Definition select_gen (skip_ti : bool) (r : reg) (ns : list str) : list cid :=
    fold_left (fun acc n =>
      if skip_ti && str_eqb n TI_NAME then acc
      else match d_find str_eqb (n2c r) n with
           | Some (Coll c) => add_cid c acc
           | _ => acc
           end) ns [].

  (* RestrictedRegistry.collect: (collectors whose collect() is invoked, families yielded) *)
  Definition restricted_gen (keep_unit skip_ti : bool) (r : reg) (ns : list str) : list cid * list family :=
    let cs := select_gen skip_ti r ns in
    (cs, (if mem_str TI_NAME ns then ti_family r else [])
         ++ flat_map (fun c => flat_map (fun f => opt_list (restricted_metric_gen keep_unit ns f)) (c_fams (env c))) cs).

  Definition restricted_metric := restricted_metric_gen true.
  Definition restricted_metric_orig := restricted_metric_gen false.
  Definition select := select_gen false.
  Definition select_orig := select_gen true.
  Definition restricted := restricted_gen true false.
  Definition restricted_orig := restricted_gen false true.
End Registry.

(* a history in which every step sees the collectors as they are at that moment *)
Definition run_dyn_gen gn merge (r : reg) (eops : list ((cid -> cbeh) * op)) : reg :=
  fold_left (fun r p => fst (step_gen (fst p) gn merge r (snd p))) eops r.
Definition run_dyn := run_dyn_gen get_names true.
