(* Model of the place where the multiprocess collector renders the le labels of a histogram
   (prometheus_client/multiprocess.py, _accumulate_metrics, histogram branch):

       for labels, values in buckets.items():
           acc = 0.0
           for bucket, value in sorted(values.items()):
               sample_key = (name + '_bucket', labels + (('le', floatToGoString(bucket)),))
               acc += value;  samples[sample_key] = acc          # accumulate=True
               samples[sample_key] = value                        # accumulate=False

   buckets maps a label set to its own {bound: value}: label sets of one histogram may have DIFFERENT
   layouts (files of workers started before and after a deploy, restarts, other clients).
   The bounds arrive here parsed and in sorted order (the order of floats is outside this model, as the
   float itself is outside model/Utils.v); counts are naturals.  The label set is any key type. *)
From V Require Import lib.PyBase model.Utils.
Open Scope N_scope.

Definition layout := list (fclass * N).

Fixpoint le_cumulate (acc : N) (bs : layout) : list (str * N) :=
  match bs with
  | [] => []
  | (b, v) :: r => (go_string b, acc + v) :: le_cumulate (acc + v) r
  end.

Definition le_plain (bs : layout) : list (str * N) :=
  map (fun bv => (go_string (fst bv), snd bv)) bs.

Definition mp_le_samples {A : Type} (accumulate : bool) (sets : list (A * layout)) : list (A * list (str * N)) :=
  map (fun lv => (fst lv, if accumulate then le_cumulate 0 (snd lv) else le_plain (snd lv))) sets.

(* The design that renders the labels ONCE per histogram, from the first label set merged, and reuses
   them by position (zip) for every other label set.  Not the code; kept to be refuted (props/C13.v). *)
Fixpoint zip_cumulate (acc : N) (les : list str) (bs : layout) : list (str * N) :=
  match les, bs with
  | le :: lr, (_, v) :: r => (le, acc + v) :: zip_cumulate (acc + v) lr r
  | _, _ => []
  end.

Definition mp_le_samples_shared {A : Type} (sets : list (A * layout)) : list (A * list (str * N)) :=
  let les := match sets with
             | [] => []
             | (_, bs) :: _ => map (fun bv => go_string (fst bv)) bs
             end in
  map (fun lv => (fst lv, zip_cumulate 0 les (snd lv))) sets.

(* specification side: running sums *)
Fixpoint prefix_sums (acc : N) (vs : list N) : list N :=
  match vs with
  | [] => []
  | v :: r => (acc + v) :: prefix_sums (acc + v) r
  end.
