(* Model of the place where the multiprocess collector renders the le labels of a histogram
   (prometheus_client/multiprocess.py, _accumulate_metrics, histogram branch):

       for labels, values in buckets.items():
           acc = 0.0
           for bucket, value in sorted(values.items()):
               sample_key = (name + '_bucket', labels + (('le', floatToGoString(bucket)),))
               acc += value;  samples[sample_key] = acc          # accumulate=True
               samples[sample_key] = value                        # accumulate=False

   buckets maps a label set to its own {bound: value}: label sets of one histogram may have DIFFERENT
   layouts (files of workers started before and after a deploy, restarts, other clients).
   The bounds arrive here parsed and in sorted order (the order of floats is outside this model, as the
   float itself is outside model/Utils.v); counts are naturals.  The label set is any key type. *)
From V Require Import lib.PyBase model.Utils.
Open Scope N_scope.

Definition layout := list (fclass * N).

Fixpoint le_cumulate (acc : N) (bs : layout) : list (str * N) :=
  match bs with
  | [] => []
  | (b, v) :: r => (go_string b, acc + v) :: le_cumulate (acc + v) r
  end.

Definition le_plain (bs : layout) : list (str * N) :=
  map (fun bv => (go_string (fst bv), snd bv)) bs.

Definition mp_le_samples {A : Type} (accumulate : bool) (sets : list (A * layout)) : list (A * list (str * N)) :=
  map (fun lv => (fst lv, if accumulate then le_cumulate 0 (snd lv) else le_plain (snd lv))) sets.

(* The design that renders the labels ONCE per histogram, from the first label set merged, and reuses
   them by position (zip) for every other label set.  Not the code; kept to be refuted (props/C13.v). *)
Fixpoint zip_cumulate (acc : N) (les : list str) (bs : layout) : list (str * N) :=
  match les, bs with
  | le :: lr, (_, v) :: r => (le, acc + v) :: zip_cumulate (acc + v) lr r
  | _, _ => []
  end.

Definition mp_le_samples_shared {A : Type} (sets : list (A * layout)) : list (A * list (str * N)) :=
  let les := match sets with
             | [] => []
             | (_, bs) :: _ => map (fun bv => go_string (fst bv)) bs
             end in
  map (fun lv => (fst lv, zip_cumulate 0 les (snd lv))) sets.

(* specification side: running sums *)
Fixpoint prefix_sums (acc : N) (vs : list N) : list N :=
  match vs with
  | [] => []
  | v :: r => (acc + v) :: prefix_sums (acc + v) r
  end.

(* ------------------------------------------------------------------------------------------------------------
   The instrumentation class (prometheus_client/metrics.py, Histogram):

       def _prepare_buckets(self, source_buckets):            # Sequence[Union[float, str]]
           buckets = [float(b) for b in source_buckets]
           if buckets != sorted(buckets): raise ValueError
           if buckets and buckets[-1] != INF: buckets.append(INF)
           if len(buckets) < 2: raise ValueError
           self._upper_bounds = buckets
       _metric_init:    one value per bound, keyed  labelvalues + (floatToGoString(b),)
       _child_samples:  acc += bucket.get();  Sample('_bucket', {'le': floatToGoString(bound)}, acc)

   A bound is GIVEN as anything float() takes (a float, an int, a bool, text in any spelling, a Decimal, a
   Fraction, bytes ...): B is that type and to_float is CPython's float() followed by the classification of the
   double - a platform function, outside the model like the double itself.  Everything after the first line
   works on the doubles only.  The order test is on doubles and stays outside too (the bounds arrive ascending,
   as in mp_le_samples); counts are the per-bucket (non-cumulative) values. *)
Definition is_pinf (c : fclass) : bool := match c with FPosInf => true | _ => false end.

Definition with_inf (bs : list fclass) : list fclass :=
  match bs with
  | [] => []
  | _ => if is_pinf (last bs FNaN) then bs else bs ++ [FPosInf]
  end.

Section Hist.
  Variable B : Type.
  Variable to_float : B -> fclass.

  Definition hist_bounds (src : list B) : res (list fclass) :=
    let bs := with_inf (map to_float src) in
    if (length bs <? 2)%nat then Err ValueError else Ok bs.

  Definition hist_le_samples (src : list B) (counts : list N) : res (list (str * N)) :=
    do bs <- hist_bounds src; Ok (le_cumulate 0 (combine bs counts)).
End Hist.

(* The design that renders the le labels once, in _prepare_buckets, and keeps a bound given as text verbatim
   ("label text already").  Not the code; kept to be refuted (props/C13.v). *)
Inductive given :=
  | GText (text : str) (denotes : fclass)
  | GNum (denotes : fclass).

Definition given_float (g : given) : fclass := match g with GText _ c => c | GNum c => c end.
Definition le_verbatim (g : given) : str := match g with GText t _ => t | GNum c => go_string c end.

Definition hist_les_verbatim (src : list given) : list str :=
  map le_verbatim src ++
  match src with
  | [] => []
  | _ => if is_pinf (last (map given_float src) FNaN) then [] else [S_pinf]
  end.
