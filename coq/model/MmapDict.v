(* Byte-exact model of prometheus_client/mmap_dict.py (C10, C11).
   Definitions only.

   A file is `option bytes` (None = the path does not exist); a byte is an N (no < 256 side condition
   is needed by any theorem).  Keys are byte strings: `key.encode('utf-8')` / `.decode('utf-8')` are
   done by Python outside the model (an inverse pair on encodable strings).  A value is the pair of the
   two 8-byte strings struct packs for (value, timestamp), so "bit for bit" is literal.

   Every writer operation returns, besides the new in-memory handle, the LIST OF FILE EFFECTS it
   performs, in program order: Create (open(..., 'a+b') of a missing path), Truncate n
   (self._f.truncate(n)), WriteSlice off bs (self._m[off:off+len bs] = bs).  mmap.mmap(...) itself
   does not change the file and is not an effect.  The file after the operation is obtained by
   applying the effects (apply_effects); every prefix of the trace is a file a concurrent reader or a
   post-crash reader can see (C11).

   Two platform constants are arguments, not numerals: `isz` = _INITIAL_MMAP_SIZE (65536 in the
   source; the theorems hold for every isz >= 8) and `pg` = mmap.PAGESIZE (theorems: pg >= 4).

   Outside the modelled domain (never produced by the writer; flagged by `Err OtherExn`): a negative
   entry-length field, a negative used-bytes header seen by __init__. *)
From V Require Import lib.PyBase.
Open Scope N_scope.

Definition bytes := list N.

Definition len {A} (l : list A) : N := N.of_nat (length l).
Definition take {A} (n : N) (l : list A) : list A := firstn (N.to_nat n) l.
Definition drop {A} (n : N) (l : list A) : list A := skipn (N.to_nat n) l.
(* Python d[a:a+n] for 0 <= a, 0 <= n: clipped at the end of d *)
Definition slice {A} (l : list A) (a n : N) : list A := take n (drop a l).
Definition fill {A} (x : A) (n : N) : list A := repeat x (N.to_nat n).

(* ---------- struct ---------- *)
Definition le32 (v : N) : bytes :=
  [v mod 256; (v / 256) mod 256; (v / 65536) mod 256; (v / 16777216) mod 256].

(* struct.Struct('i').pack: struct.error outside the signed 32-bit range (arguments here are >= 0) *)
Definition pack_i (v : N) : res bytes :=
  if v <? 2147483648 then Ok (le32 v) else Err StructError.

(* struct.Struct('i').unpack_from(d, pos): little-endian signed; struct.error when fewer than 4 bytes *)
Definition unpack_i (d : bytes) (pos : N) : res Z :=
  match slice d pos 4 with
  | [b0; b1; b2; b3] =>
      let u := b0 + 256 * b1 + 65536 * b2 + 16777216 * b3 in
      Ok (if u <? 2147483648 then Z.of_N u else (Z.of_N u - 4294967296)%Z)
  | _ => Err StructError
  end.

(* struct.Struct('dd').unpack_from(d, pos): the two 8-byte strings *)
Definition unpack_dd (d : bytes) (pos : N) : res (bytes * bytes) :=
  let s := slice d pos 16 in
  if len s =? 16 then Ok (take 8 s, drop 8 s) else Err StructError.

(* ---------- file effects ---------- *)
Inductive effect := Create | Truncate (n : N) | WriteSlice (off : N) (bs : bytes).
Definition fstate := option bytes.

Definition apply_effect (f : fstate) (e : effect) : res fstate :=
  match e, f with
  | Create, None => Ok (Some [])
  | Create, Some b => Ok (Some b)
  | Truncate n, Some b => Ok (Some (take n b ++ fill 0 (n - len b)))
  | WriteSlice off bs, Some b =>
      (* m[off:off+n] = bs needs the (clipped) target slice to have exactly n bytes *)
      if len (slice b off (len bs)) =? len bs
      then Ok (Some (take off b ++ bs ++ drop (off + len bs) b))
      else Err IndexError                      (* mmap slice assignment is wrong size *)
  | _, None => Err OSError
  end.

Fixpoint apply_effects (f : fstate) (es : list effect) : res fstate :=
  match es with
  | [] => Ok f
  | e :: r => do f' <- apply_effect f e; apply_effects f' r
  end.

(* ---------- entries ---------- *)
Definition SPACE : N := 32.
Definition pad_len (n : N) : N := 8 - (n + 4) mod 8.           (* 1..8 spaces *)
Definition zero8 : bytes := [0;0;0;0;0;0;0;0].
Definition value := (bytes * bytes)%type.                         (* packed value, packed timestamp *)
Definition entry := (bytes * value)%type.

(* struct.pack('i{n}sdd', len(encoded), padded, 0.0, 0.0).  4 + len(padded) is a multiple of 8, so the
   native alignment of 'd' inserts nothing. *)
Definition entry_bytes (k : bytes) : res bytes :=
  do l <- pack_i (len k);
  Ok (l ++ k ++ fill SPACE (pad_len (len k)) ++ zero8 ++ zero8).

(* ---------- the reader: _read_all_values(data, used) ---------- *)
(* yields (key, (value, timestamp), pos).  The Python loop indexes `data` by `pos`; the model walks the
   list left to right instead: `rest` is data[pos:], so _unpack_integer(data, pos) is unpack_i rest 0,
   data[pos+4 : pos+4+el] is slice rest 4 el, and so on (restructuring validated by the correspondence). *)
Fixpoint read_loop (fuel : nat) (rest : bytes) (used pos : N) : res (list (entry * N)) :=
  if pos <? used then
    match fuel with
    | O => Err OutOfFuel
    | S f =>
        do el <- unpack_i rest 0;
        if (el <? 0)%Z then Err OtherExn else            (* outside the modelled domain *)
        let el := Z.to_N el in
        if used <? el + pos then Err RuntimeError else    (* 'Read beyond file size detected' *)
        let key := slice rest 4 el in
        let off := 4 + el + pad_len el in
        do vt <- unpack_dd rest off;
        do r <- read_loop f (drop (off + 16) rest) used (pos + off + 16);
        Ok ((key, vt, pos + off) :: r)
    end
  else Ok [].

(* every iteration that does not raise consumes >= 24 bytes of data, so S (length d) is enough
   (MmapDictProofs.read_loop_fuel_enough) *)
Definition read_all_values_raw (d : bytes) (used : Z) : res (list (entry * N)) :=
  do u <- (if (used <=? 0)%Z then unpack_i d 0 else Ok used);
  read_loop (S (length d)) (drop 8 d) (Z.to_N u) 8.

Definition drop_pos (l : list (entry * N)) : list entry := map fst l.

(* ---------- the writer handle ---------- *)
Record handle := { capacity : N; used : N; positions : assoc bytes N }.

Definition keq : bytes -> bytes -> bool := str_eqb.

(* while self._used + len(value) > self._capacity: self._capacity *= 2; truncate; mmap *)
Fixpoint grow (fuel : nat) (cap need : N) : res (N * list effect) :=
  if need <=? cap then Ok (cap, [])
  else match fuel with
       | O => Err OutOfFuel
       | S f => do ce <- grow f (2 * cap) need; Ok (fst ce, Truncate (2 * cap) :: snd ce)
       end.
Definition grow_fuel (need : N) : nat := S (N.to_nat (N.log2 need)).

(* _init_value.  (If the header pack raised - used >= 2^31 - the truncates and the entry write would
   already have happened; the theorems carry used < 2^31, where nothing raises.) *)
Definition init_value (h : handle) (k : bytes) : res (handle * list effect) :=
  do e <- entry_bytes k;
  let used' := used h + len e in
  do ce <- grow (grow_fuel used') (capacity h) used';
  do hd <- pack_i used';
  Ok ({| capacity := fst ce; used := used';
         positions := d_set keq (positions h) k (used' - 16) |},
      snd ce ++ [WriteSlice (used h) e; WriteSlice 0 hd]).

Definition ensure (h : handle) (k : bytes) : res (handle * list effect) :=
  if d_mem keq (positions h) k then Ok (h, []) else init_value h k.

Definition write_value (h : handle) (k v ts : bytes) : res (handle * list effect) :=
  do he <- ensure h k;
  do pos <- d_get keq (positions (fst he)) k;
  Ok (fst he, snd he ++ [WriteSlice pos (v ++ ts)]).

(* read_value: effects of a possible _init_value, then unpack at the position from the mapping
   (the mapping is the file: capacity = file length) *)
Definition peek (b : bytes) (h : handle) (k : bytes) : res value :=
  do pos <- d_get keq (positions h) k; unpack_dd b pos.

(* MmapedDict.read_all_values() on an open handle: data = the mapping, used = self._used *)
Definition read_all (b : bytes) (h : handle) : res (list entry) :=
  do l <- read_all_values_raw b (Z.of_N (used h)); Ok (drop_pos l).

(* MmapedDict.close(): self._m.close(); self._f.close().  Neither statement changes the file: close() has NO file
   effect.  It is an operation of its own because it is not only run by the owner of the file: after fork() the
   child's first metric operation (values.py, pid change) closes every handle it inherited, while the parent is still
   a live writer of the same file through its own mapping (wop / wrun_from below; C11_close_keeps_file). *)
Definition close_effects (h : handle) : list effect := [].

(* 'gauge', 'live' *)
Definition S_GAUGE : bytes := [103; 97; 117; 103; 101].
Definition S_LIVE : bytes := [108; 105; 118; 101].
Fixpoint starts_with (p s : bytes) : bool :=
  match p, s with
  | [], _ => true
  | a :: p', b :: s' => (a =? b) && starts_with p' s'
  | _ :: _, [] => false
  end.
Definition vanish_tolerated (typ p1 : bytes) : bool := keq typ S_GAUGE && starts_with S_LIVE p1.

(* operation histories: write_value, read_value, close + MmapedDict(filename) again *)
Inductive op := Write (k v ts : bytes) | ReadV (k : bytes) | Reopen.

Section Params.
  Variable isz : N.     (* _INITIAL_MMAP_SIZE *)
  Variable pg : N.      (* mmap.PAGESIZE *)

  (* MmapedDict.__init__(filename) (read_mode=False) *)
  Definition open_ (f : fstate) : res (handle * list effect) :=
    let e1 := match f with None => [Create] | Some _ => [] end in
    let b0 := match f with None => [] | Some b => b end in
    let fresh := len b0 =? 0 in
    let cap := if fresh then isz else len b0 in
    let e2 := if fresh then [Truncate isz] else [] in
    let b1 := if fresh then fill 0 isz else b0 in
    do u <- unpack_i b1 0;
    if (u =? 0)%Z then
      Ok ({| capacity := cap; used := 8; positions := [] |}, e1 ++ e2 ++ [WriteSlice 0 (le32 8)])
    else if (u <? 0)%Z then Err OtherExn                  (* outside the modelled domain *)
    else
      do l <- read_all_values_raw b1 u;
      Ok ({| capacity := cap; used := Z.to_N u;
             positions := fold_left (fun d (x : entry * N) => d_set keq d (fst (fst x)) (snd x)) l [] |},
          e1 ++ e2).

  (* MmapedDict.read_all_values_from_file as in the pinned source *)
  Definition read_all_from_file_orig (b : bytes) : res (list entry) :=
    let data := take pg b in
    do u <- unpack_i data 0;
    let data' := if (Z.of_N (len data) <? u)%Z
                 then data ++ slice b (len data) (Z.to_N (u - Z.of_N (len data))) else data in
    do l <- read_all_values_raw data' u; Ok (drop_pos l).

  (* the repaired reader (fixes/C11-empty-file.diff): a file of size 0 - created by open('a+b') but not yet
     sized by its writer - holds no entries *)
  Definition read_all_from_file (b : bytes) : res (list entry) :=
    if len (take pg b) =? 0 then Ok [] else read_all_from_file_orig b.

  (* ---------- the reader as a sequence of reads over a CHANGING file ---------- *)
  (* read_all_values_from_file makes one or two read() calls on the handle it opened, and a live writer may perform
     any number of file effects between them (the reader takes no lock).  b1 = the file as it is at the first read,
     infp.read(PAGESIZE); b2 = the file as it is at the second read, infp.read(used - len(data)), which continues at
     offset len(data) and is only made when the header taken from the FIRST read says that more than the first block
     is in use.  The header that bounds the parse is the one of the first read (_read_all_values(data, used)).
     read_all_from_file b is read_all_from_file_il b b: the reader that is atomic with respect to the writer. *)
  Definition read_all_from_file_il (b1 b2 : bytes) : res (list entry) :=
    let data := take pg b1 in
    if len data =? 0 then Ok [] else
    do u <- unpack_i data 0;
    let data' := if (Z.of_N (len data) <? u)%Z
                 then data ++ slice b2 (len data) (Z.to_N (u - Z.of_N (len data))) else data in
    do l <- read_all_values_raw data' u; Ok (drop_pos l).

  (* ---------- operation histories ---------- *)
  Definition op_effects (f : fstate) (h : handle) (o : op) : res (handle * list effect) :=
    match o with
    | Write k v ts => write_value h k v ts
    | ReadV k => ensure h k
    | Reopen =>                                           (* close(), then MmapedDict(filename) on what close() left *)
        let ce := close_effects h in
        do f1 <- apply_effects f ce; do he <- open_ f1; Ok (fst he, ce ++ snd he)
    end.

  Definition step (w : fstate * handle) (o : op) : res (fstate * handle * list effect) :=
    do he <- op_effects (fst w) (snd w) o;
    do f' <- apply_effects (fst w) (snd he);
    Ok (f', fst he, snd he).

  (* final file, final handle, whole effect trace *)
  Fixpoint run_from (w : fstate * handle) (ops : list op) : res (fstate * handle * list effect) :=
    match ops with
    | [] => Ok (fst w, snd w, [])
    | o :: r =>
        do s <- step w o;
        do t <- run_from (fst (fst s), snd (fst s)) r;
        Ok (fst (fst t), snd (fst t), snd s ++ snd t)
    end.

  Definition start : res (fstate * handle * list effect) :=
    do he <- open_ None; do f <- apply_effects None (snd he); Ok (f, fst he, snd he).

  Definition run (ops : list op) : res (fstate * handle * list effect) :=
    do s <- start;
    do t <- run_from (fst (fst s), snd (fst s)) ops;
    Ok (fst (fst t), snd (fst t), snd s ++ snd t).

  Definition trace (ops : list op) : res (list effect) := do t <- run ops; Ok (snd t).

  (* the file a reader sees after the first n effects of the writer's trace *)
  Definition cut (n : nat) (tr : list effect) : res fstate := apply_effects None (firstn n tr).

  (* a reader whose first read is served from the file after n1 effects of the writer's trace and whose second read
     (if it makes one) from the file after n2 >= n1 effects: the writer performs effects n1+1 .. n2 in between *)
  Definition read_il_at (tr : list effect) (n1 n2 : nat) : res (list entry) :=
    do f1 <- cut n1 tr; do f2 <- cut n2 tr;
    match f1, f2 with
    | Some b1, Some b2 => read_all_from_file_il b1 b2
    | _, _ => Err OSError
    end.

  (* ---------- one writer, and forked children that inherited its handle ---------- *)
  (* Own o: the writer's own operation.  Fork: a child process is forked; it holds a copy of the writer's handle as it
     is at that moment (same descriptor, same mapping) and does nothing yet.  CloseInherited: the oldest such child
     performs its first metric operation, i.e. calls close() on the copy (with the handle state of ITS fork time,
     which may be stale by now) - the writer goes on with its own handle afterwards. *)
  Inductive wop := Own (o : op) | Fork | CloseInherited.

  Definition wstep (w : fstate * handle * list handle) (o : wop)
    : res (fstate * handle * list handle * list effect) :=
    let f := fst (fst w) in let h := snd (fst w) in let inh := snd w in
    match o with
    | Own o => do s <- step (f, h) o; Ok (fst (fst s), snd (fst s), inh, snd s)
    | Fork => Ok (f, h, inh ++ [h], [])
    | CloseInherited =>
        match inh with
        | [] => Ok (f, h, [], [])
        | hb :: r => let ce := close_effects hb in do f' <- apply_effects f ce; Ok (f', h, r, ce)
        end
    end.

  Fixpoint wrun_from (w : fstate * handle * list handle) (ops : list wop)
    : res (fstate * handle * list handle * list effect) :=
    match ops with
    | [] => Ok (fst (fst w), snd (fst w), snd w, [])
    | o :: r =>
        do s <- wstep w o;
        do t <- wrun_from (fst (fst (fst s)), snd (fst (fst s)), snd (fst s)) r;
        Ok (fst (fst (fst t)), snd (fst (fst t)), snd (fst t), snd s ++ snd t)
    end.

  Definition wrun (ops : list wop) : res (fstate * handle * list handle * list effect) :=
    do s <- start;
    do t <- wrun_from (fst (fst s), snd (fst s), []) ops;
    Ok (fst (fst (fst t)), snd (fst (fst t)), snd (fst t), snd s ++ snd t).

  Definition wtrace (ops : list wop) : res (list effect) := do t <- wrun ops; Ok (snd t).

  (* ---------- the collector's reading phase of one listed file (multiprocess.py, _read_metrics) ---------- *)
  (* parts = basename.split('_'); typ = parts[0]; p1 = parts[1].  The file may have been removed between the glob and
     the read (f = None): FileNotFoundError is swallowed exactly for typ == 'gauge' and parts[1].startswith('live')
     (the files mark_process_dead removes) and re-raised otherwise. *)
  Definition read_listed (typ p1 : bytes) (f : fstate) : res (list entry) :=
    match f with
    | Some b => read_all_from_file b
    | None => if vanish_tolerated typ p1 then Ok [] else Err OSError
    end.
End Params.

(* ---------- specification: a Python dict of the written pairs ---------- *)
Definition spec_step (acc : list entry) (o : op) : list entry :=
  match o with
  | Write k v ts => d_set keq acc k (v, ts)
  | ReadV k => if d_mem keq acc k then acc else d_set keq acc k (zero8, zero8)
  | Reopen => acc
  end.
Definition spec_from (acc : list entry) (ops : list op) : list entry := fold_left spec_step ops acc.
Definition spec (ops : list op) : list entry := spec_from [] ops.

(* ---------- results that are consumed LATER than they were asked for ---------- *)
(* In Python the read paths hand back lazy objects: read_all_values_from_file returns the _read_all_values generator
   over the bytes it has just read, read_all_values() is a generator over the mapping.  A caller may keep several such
   results alive and consume them later, element by element and interleaved (merging or comparing the files of two
   processes), after reading OTHER files, after reading the SAME file again once more was written, after growth, after
   the writer closed its handle.
   In the model a result is a VALUE, computed from the bytes of ITS file at the moment of ITS call:
   read_all_from_file pg b : res (list entry) has no other input than b.  That is what a held result of the file reader
   denotes, and consuming it - now or later, all at once or in pieces - can only unfold that value: `consume` below has
   the later worlds (every file as it is at the moment of consumption, the results asked for in between) as an input it
   does not look at.  So C10_abs / C10_abs_keys, which say what read_all_from_file returns for the file of a history, say
   it for a result held across any number of later calls on any files; the correspondence holds results of two and
   more files (and of one file at several moments) alive at the same time and consumes them late and interleaved.
   read_all_values() of a handle is a view of the live mapping in the implementation (nothing is copied): consumed while
   its file does not change it is read_all b h of the moment of the call (compared with the model); consumed across
   later writes, each element is the key's pair at some moment between the call and the element's delivery (both
   readings of "most recently written" - the direct oracle checks this envelope). *)
Definition held := res (list entry).
Definition hold_file (pg : N) (f : fstate) : held :=
  match f with Some b => read_all_from_file pg b | None => Err OSError end.
Definition hold_handle (f : fstate) (h : handle) : held :=
  match f with Some b => read_all b h | None => Err OSError end.
(* the first n elements of a held result, consumed when the files are `later` *)
Definition consume (r : held) (n : nat) (later : list fstate) : res (list entry) :=
  do l <- r; Ok (firstn n l).

(* the writer's own operations of a history with forked children *)
Definition own_ops (ws : list wop) : list op :=
  flat_map (fun w => match w with Own o => [o] | _ => [] end) ws.

(* ---------- keys as Python objects: what write_value / read_value do with `key` before any byte changes ---------- *)
(* `key` is whatever the caller passes.  Both methods start with `if key not in self._positions: self._init_value(key)`
   and _init_value starts with `encoded = key.encode('utf-8')` (errors='strict').  Three ways this refuses a key, all
   BEFORE the first statement that changes the handle or the file:
     - the key is not hashable (list, dict, set, bytearray): the membership test raises TypeError;
     - the key is hashable but not a str (int, float, bool, None, tuple, frozenset, bytes): it is never in the mapping
       (the mapping holds only str keys and none of these compares equal to a str) and has no .encode that accepts
       'utf-8': AttributeError;
     - the key is a str that is not well-formed Unicode (it contains a surrogate code point U+D800..U+DFFF, e.g. the
       PEP 383 image os.fsdecode(b'caf\xe9')): it is never in the mapping (the mapping holds only keys that were
       encoded by _init_value or decoded by the reader) and the strict encoder raises UnicodeEncodeError (a ValueError).
   A str is given by its code points (each < 0x110000); the strict UTF-8 encoder is part of the model, so WHICH strs
   are refused is decided by the model and compared with the implementation by the correspondence. *)
Inductive pykey := KStr (cps : list N) | KNoEncode | KUnhashable.

Definition is_surrogate (c : N) : bool := (55296 <=? c) && (c <? 57344).

(* one code point of str.encode('utf-8') *)
Definition utf8_cp (c : N) : res bytes :=
  if c <? 128 then Ok [c]
  else if c <? 2048 then Ok [192 + c / 64; 128 + c mod 64]
  else if c <? 65536 then
    if is_surrogate c then Err ValueError                 (* UnicodeEncodeError: surrogates not allowed *)
    else Ok [224 + c / 4096; 128 + (c / 64) mod 64; 128 + c mod 64]
  else Ok [240 + c / 262144; 128 + (c / 4096) mod 64; 128 + (c / 64) mod 64; 128 + c mod 64].

Fixpoint utf8 (s : list N) : res bytes :=
  match s with
  | [] => Ok []
  | c :: r => do a <- utf8_cp c; do b <- utf8 r; Ok (a ++ b)
  end.

(* the byte-string key the rest of the model works with, or the exception raised before anything changed *)
Definition key_bytes (k : pykey) : res bytes :=
  match k with
  | KStr s => utf8 s
  | KNoEncode => Err AttributeError
  | KUnhashable => Err TypeError
  end.

(* the calls as a caller makes them *)
Inductive pop := PWrite (k : pykey) (v ts : bytes) | PReadV (k : pykey) | PReopen.

Definition lower (o : pop) : res op :=
  match o with
  | PWrite k v ts => do kb <- key_bytes k; Ok (Write kb v ts)
  | PReadV k => do kb <- key_bytes k; Ok (ReadV kb)
  | PReopen => Ok Reopen
  end.

(* one call: a refused key raises (Some e) with no file effect and the handle as it was; the history goes on *)
Definition pstep (isz : N) (w : fstate * handle) (o : pop) : res (fstate * handle * list effect * option exn) :=
  match lower o with
  | Err e => Ok (fst w, snd w, [], Some e)
  | Ok o' => do s <- step isz w o'; Ok (s, None)
  end.

(* final file, final handle, whole effect trace, what each call raised *)
Fixpoint prun_from (isz : N) (w : fstate * handle) (ops : list pop)
  : res (fstate * handle * list effect * list (option exn)) :=
  match ops with
  | [] => Ok (fst w, snd w, [], [])
  | o :: r =>
      do s <- pstep isz w o;
      do t <- prun_from isz (fst (fst (fst s)), snd (fst (fst s))) r;
      Ok (fst (fst (fst t)), snd (fst (fst t)), snd (fst s) ++ snd (fst t), snd s :: snd t)
  end.

Definition prun (isz : N) (ops : list pop) : res (fstate * handle * list effect * list (option exn)) :=
  do s <- start isz;
  do t <- prun_from isz (fst (fst s), snd (fst s)) ops;
  Ok (fst (fst (fst t)), snd (fst (fst t)), snd s ++ snd (fst t), snd t).

(* the calls that were not refused, with their encoded keys; and the exception of each call *)
Definition accepted (ops : list pop) : list op :=
  flat_map (fun o => match lower o with Ok o' => [o'] | Err _ => [] end) ops.
Definition outcomes (ops : list pop) : list (option exn) :=
  map (fun o => match lower o with Ok _ => None | Err e => Some e end) ops.

(* ---------- driver entry points (observations; not used by the theorems' statements) ---------- *)
Definition obs_world (pg : N) (f : fstate) (h : handle) :=
  match f with
  | None => (0, [], Err OSError, Err OSError)
  | Some b => (len b, take (used h) b, read_all b h, read_all_from_file pg b)
  end.
