(* Model of prometheus_client/multiprocess.py:
     MultiProcessCollector.merge = _read_metrics + _accumulate_metrics (accumulate=True), mark_process_dead.
   Input: the *.db files in read order, each with the entries MmapedDict.read_all_values_from_file yields.
   The mmap file is an association list key -> (value, timestamp) (C10 justifies that view); the JSON key
   codec is outside the model: a key is the structure json.loads returns, with the label items already in
   the sorted order `tuple(sorted(labels.items()))` gives.
   Parametric in the float type: fadd/flt/feqb are CPython's float + < ==; parse_le is float(str) on an
   `le` label value and fmt_le is utils.floatToGoString (C13), both answered by CPython in the driver. *)
From V Require Import lib.PyBase.
Open Scope N_scope.

(* ---------- a Python dict updated in a loop: d[k] = upd(d.get(k), item) ---------- *)
Section DictFold.
  Context {K S A : Type} (keq : K -> K -> bool) (upd : option S -> A -> S).
  Fixpoint dfold (d : assoc K S) (items : list (K * A)) : assoc K S :=
    match items with
    | [] => d
    | (k, a) :: r => dfold (d_set keq d k (upd (d_find keq d k) a)) r
    end.
  (* what one key sees: the fold of upd over the items of that key *)
  Fixpoint kfold (o : option S) (l : list A) : option S :=
    match l with [] => o | a :: r => kfold (Some (upd o a)) r end.
  Fixpoint vals_of (k : K) (items : list (K * A)) : list A :=
    match items with
    | [] => []
    | (k', a) :: r => if keq k k' then a :: vals_of k r else vals_of k r
    end.
End DictFold.

(* `d[k] = v` for a list of assignments in order *)
Fixpoint set_all {K V} (keq : K -> K -> bool) (d : assoc K V) (l : list (K * V)) : assoc K V :=
  match l with [] => d | (k, v) :: r => set_all keq (d_set keq d k v) r end.

(* which assignment of such a list a later lookup of k sees: the last one to k, else what was there before *)
Fixpoint find_last {K V} (keq : K -> K -> bool) (l : list (K * V)) (k : K) (acc : option V) : option V :=
  match l with
  | [] => acc
  | (k', v) :: r => find_last keq r k (if keq k k' then Some v else acc)
  end.

Definition label := (str * str)%type.
Definition labels := list label.

Definition label_eqb (a b : label) : bool := str_eqb (fst a) (fst b) && str_eqb (snd a) (snd b).
Fixpoint labels_eqb (a b : labels) : bool :=
  match a, b with
  | [], [] => true
  | x :: a', y :: b' => label_eqb x y && labels_eqb a' b'
  | _, _ => false
  end.

Definition skey := (str * labels)%type.        (* (sample name, labels tuple): the key of `samples` *)
Definition skey_eqb (a b : skey) : bool := str_eqb (fst a) (fst b) && labels_eqb (snd a) (snd b).

Record key := mkKey { k_metric : str; k_name : str; k_labels : labels; k_help : str }.
Definition key_eqb (a b : key) : bool :=
  str_eqb (k_metric a) (k_metric b) && str_eqb (k_name a) (k_name b)
  && labels_eqb (k_labels a) (k_labels b) && str_eqb (k_help a) (k_help b).

Definition S_gauge := Eval compute in s2l "gauge".
Definition S_histogram := Eval compute in s2l "histogram".
Definition S_pid := Eval compute in s2l "pid".
Definition S_le := Eval compute in s2l "le".
Definition S_bucket := Eval compute in s2l "_bucket".
Definition S_count := Eval compute in s2l "_count".
Definition S_db := Eval compute in s2l ".db".
Definition S_live := Eval compute in s2l "live".
Definition US : char := 95.

Definition M_min := Eval compute in s2l "min".
Definition M_livemin := Eval compute in s2l "livemin".
Definition M_max := Eval compute in s2l "max".
Definition M_livemax := Eval compute in s2l "livemax".
Definition M_sum := Eval compute in s2l "sum".
Definition M_livesum := Eval compute in s2l "livesum".
Definition M_mostrecent := Eval compute in s2l "mostrecent".
Definition M_livemostrecent := Eval compute in s2l "livemostrecent".
Definition M_liveall := Eval compute in s2l "liveall".
Definition LIVE_MODES : list str := [M_liveall; M_livemin; M_livemax; M_livesum; M_livemostrecent].

(* ---------- file names: os.path.basename(f).split('_') ---------- *)
Fixpoint split_on (c : char) (cur : str) (s : str) : list str :=
  match s with
  | [] => [rev cur]
  | x :: r => if N.eqb x c then rev cur :: split_on c [] r else split_on c (x :: cur) r
  end.
Definition drop_last3 (s : str) : str := firstn (length s - 3) s.

(* (typ, mode, pid); mode and pid are only looked at for gauge files: parts[1], parts[2][:-3] *)
Definition parse_fname (base : str) : str * str * str :=
  let parts := split_on US [] base in
  let typ := nth 0 parts [] in
  if str_eqb typ S_gauge then (typ, nth 1 parts [], drop_last3 (nth 2 parts []))
  else (typ, [], []).

Definition gauge_fname (mode pid : str) : str := S_gauge ++ [US] ++ mode ++ [US] ++ pid ++ S_db.

(* mark_process_dead(pid): for mode in the live modes: for f in glob('gauge_{mode}_{pid}.db'): os.remove(f).
   The directory is the list of base names. *)
Definition mark_dead (pid : str) (dir : list str) : list str :=
  filter (fun n => negb (mem_str n (map (fun m => gauge_fname m pid) LIVE_MODES))) dir.

Section Merge.
  Variable F : Type.
  Variable fzero : F.
  Variable fadd : F -> F -> F.
  Variable flt : F -> F -> bool.
  Variable feqb : F -> F -> bool.
  Variable parse_le : str -> F.
  Variable fmt_le : F -> str.

  Record file := mkFile { f_typ : str; f_mode : str; f_pid : str; f_entries : list (key * (F * F)) }.
  Record sample := mkSample { s_name : str; s_labels : labels; s_value : F; s_ts : F }.
  Record metric := mkMetric { m_name : str; m_help : str; m_typ : str; m_mode : str; m_samples : list sample }.

  (* ----- _read_metrics ----- *)
  (* one (file header, entry) pair -> update of metrics[metric_name] *)
  Definition read_upd (o : option metric) (fe : file * (key * (F * F))) : metric :=
    let '(f, (k, (v, ts))) := fe in
    let m := match o with
             | Some m => m
             | None => mkMetric (k_metric k) (k_help k) (f_typ f) [] []
             end in
    if str_eqb (f_typ f) S_gauge then
      mkMetric (m_name m) (m_help m) (m_typ m) (f_mode f)
               (m_samples m ++ [mkSample (k_name k) (k_labels k ++ [(S_pid, f_pid f)]) v ts])
    else
      mkMetric (m_name m) (m_help m) (m_typ m) (m_mode m)
               (m_samples m ++ [mkSample (k_name k) (k_labels k) v fzero]).

  Definition all_entries (files : list file) : list (str * (file * (key * (F * F)))) :=
    flat_map (fun f => map (fun e => (k_metric (fst e), (f, e))) (f_entries f)) files.

  Definition read_metrics (files : list file) : assoc str metric :=
    dfold str_eqb read_upd [] (all_entries files).

  (* ----- _accumulate_metrics, accumulate=True ----- *)
  Definition opt_default {A} (d : A) (o : option A) : A := match o with Some a => a | None => d end.

  (* samples[k] += value   (defaultdict(float)) *)
  Definition upd_sum (o : option F) (v : F) : F := fadd (opt_default fzero o) v.
  (* current = samples.setdefault(k, value); if value < current: samples[k] = value *)
  Definition upd_min (o : option F) (v : F) : F :=
    match o with None => v | Some c => if flt v c then v else c end.
  Definition upd_max (o : option F) (v : F) : F :=
    match o with None => v | Some c => if flt c v then v else c end.
  (* samples[(name, labels)] = value *)
  Definition upd_last (o : option F) (v : F) : F := v.
  (* current_timestamp = sample_timestamps[k]; timestamp = float(timestamp or 0);
     if current_timestamp < timestamp: samples[k] = value; sample_timestamps[k] = timestamp.
     Per key: (value if ever assigned, current timestamp). *)
  Definition ts_norm (t : F) : F := if feqb t fzero then fzero else t.
  Definition upd_mr (o : option (option F * F)) (vt : F * F) : option F * F :=
    let '(cv, cts) := opt_default (None, fzero) o in
    let t := ts_norm (snd vt) in
    if flt cts t then (Some (fst vt), t) else (cv, cts).

  Definition not_pid (l : label) : bool := negb (str_eqb (fst l) S_pid).
  Definition not_le (l : label) : bool := negb (str_eqb (fst l) S_le).
  Definition without_pid (s : sample) : skey := (s_name s, filter not_pid (s_labels s)).
  Definition full_key (s : sample) : skey := (s_name s, s_labels s).

  Definition is_mode (a b : str) (m : str) : bool := str_eqb m a || str_eqb m b.

  Fixpoint keep_assigned (d : assoc skey (option F * F)) : assoc skey F :=
    match d with
    | [] => []
    | (k, (Some v, _)) :: r => (k, v) :: keep_assigned r
    | (_, (None, _)) :: r => keep_assigned r
    end.

  Definition acc_gauge (mode : str) (ss : list sample) : assoc skey F :=
    if is_mode M_min M_livemin mode then
      dfold skey_eqb upd_min [] (map (fun s => (without_pid s, s_value s)) ss)
    else if is_mode M_max M_livemax mode then
      dfold skey_eqb upd_max [] (map (fun s => (without_pid s, s_value s)) ss)
    else if is_mode M_sum M_livesum mode then
      dfold skey_eqb upd_sum [] (map (fun s => (without_pid s, s_value s)) ss)
    else if is_mode M_mostrecent M_livemostrecent mode then
      keep_assigned (dfold skey_eqb upd_mr [] (map (fun s => (without_pid s, (s_value s, s_ts s))) ss))
    else
      dfold skey_eqb upd_last [] (map (fun s => (full_key s, s_value s)) ss).

  Definition acc_plain (ss : list sample) : assoc skey F :=
    dfold skey_eqb upd_sum [] (map (fun s => (full_key s, s_value s)) ss).

  (* for l in labels: if l[0] == 'le': ... break *)
  Fixpoint find_le (ls : labels) : option str :=
    match ls with
    | [] => None
    | l :: r => if str_eqb (fst l) S_le then Some (snd l) else find_le r
    end.
  Definition has_le (s : sample) : bool := match find_le (s_labels s) with Some _ => true | None => false end.

  (* buckets[without_le][float(le)] += value *)
  Definition upd_bucket (o : option (assoc F F)) (bv : F * F) : assoc F F :=
    let inner := opt_default [] o in
    d_set feqb inner (fst bv) (upd_sum (d_find feqb inner (fst bv)) (snd bv)).

  Definition bucket_item (s : sample) : labels * (F * F) :=
    (filter not_le (s_labels s), (parse_le (opt_default [] (find_le (s_labels s))), s_value s)).

  (* sorted(values.items()) for pairwise distinct, comparable bounds *)
  Fixpoint insert_b (x : F * F) (l : list (F * F)) : list (F * F) :=
    match l with
    | [] => [x]
    | y :: r => if flt (fst x) (fst y) then x :: y :: r else y :: insert_b x r
    end.
  Fixpoint sort_b (l : list (F * F)) : list (F * F) :=
    match l with [] => [] | x :: r => insert_b x (sort_b r) end.

  (* acc = 0.0; for bucket, value in sorted(...): acc += value; samples[(name_bucket, labels + (le,))] = acc;
     returns the assignments and the final acc *)
  Fixpoint cumulate (mname : str) (ls : labels) (acc : F) (l : list (F * F)) : list (skey * F) * F :=
    match l with
    | [] => ([], acc)
    | (b, v) :: r =>
        let acc' := fadd acc v in
        let '(out, fin) := cumulate mname ls acc' r in
        (((mname ++ S_bucket, ls ++ [(S_le, fmt_le b)]), acc') :: out, fin)
    end.

  Definition bucket_writes (mname : str) (group : labels * assoc F F) : list (skey * F) :=
    let '(out, fin) := cumulate mname (fst group) fzero (sort_b (snd group)) in
    out ++ [((mname ++ S_count, fst group), fin)].

  Definition acc_histogram (mname : str) (ss : list sample) : assoc skey F :=
    let plain := acc_plain (filter (fun s => negb (has_le s)) ss) in
    let buckets := dfold labels_eqb upd_bucket [] (map bucket_item (filter has_le ss)) in
    set_all skey_eqb plain (flat_map (bucket_writes mname) buckets).

  Definition accumulate (m : metric) : assoc skey F :=
    if str_eqb (m_typ m) S_gauge then acc_gauge (m_mode m) (m_samples m)
    else if str_eqb (m_typ m) S_histogram then acc_histogram (m_name m) (m_samples m)
    else acc_plain (m_samples m).

  (* family: (name, help, type, samples) *)
  Definition family := (str * str * str * assoc skey F)%type.
  Definition merge (files : list file) : list family :=
    map (fun nm => let m := snd nm in (m_name m, m_help m, m_typ m, accumulate m)) (read_metrics files).

  (* driver entry: base name + entries *)
  Definition file_of_named (ne : str * list (key * (F * F))) : file :=
    let '(t, md, p) := parse_fname (fst ne) in mkFile t md p (snd ne).
  Definition merge_named (files : list (str * list (key * (F * F)))) : list family :=
    merge (map file_of_named files).
End Merge.
