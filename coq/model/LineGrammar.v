(* An independent line grammar for the text 0.0.4 and OpenMetrics wire formats, written from the format
   descriptions and sharing no code with the exposition or parser models.  A recogniser consumes a prefix
   and returns the rest; a line is well formed when the whole line is consumed. *)
From V Require Import lib.PyBase.
Open Scope N_scope.

Definition rec := str -> option str.

Definition g_char (p : char -> bool) : rec :=
  fun s => match s with c :: r => if p c then Some r else None | [] => None end.
Fixpoint g_lit (l : str) : rec :=
  fun s => match l with
           | [] => Some s
           | x :: l' => match s with c :: r => if c =? x then g_lit l' r else None | [] => None end
           end.
Definition g_seq (a b : rec) : rec := fun s => match a s with Some r => b r | None => None end.
Definition g_alt (a b : rec) : rec := fun s => match a s with Some r => Some r | None => b s end.
Definition g_opt (a : rec) : rec := fun s => match a s with Some r => Some r | None => Some s end.
(* greedy p* *)
Fixpoint g_many (p : char -> bool) (s : str) : option str :=
  match s with c :: r => if p c then g_many p r else Some s | [] => Some s end.
Definition g_many1 (p : char -> bool) : rec := g_seq (g_char p) (g_many p).
Definition g_end : rec := fun s => match s with [] => Some [] | _ => None end.

Definition c_alpha (c : char) := ((65 <=? c) && (c <=? 90)) || ((97 <=? c) && (c <=? 122)).
Definition c_digit (c : char) := (48 <=? c) && (c <=? 57).
Definition c_name0 (c : char) := c_alpha c || (c =? 95) || (c =? 58).
Definition c_name (c : char) := c_name0 c || c_digit c.
Definition c_label0 (c : char) := c_alpha c || (c =? 95).
Definition c_label (c : char) := c_label0 c || c_digit c.

(* a quoted string with only the escapes BS BS, BS n, BS DQ; no raw LF, quote or lone backslash inside *)
Fixpoint g_qbody (s : str) : option str :=
  match s with
  | [] => None
  | c :: r =>
      if c =? 34 then Some r
      else if c =? 10 then None
      else if c =? 92 then
        match r with
        | d :: r' => if (d =? 92) || (d =? 110) || (d =? 34) then g_qbody r' else None
        | [] => None
        end
      else g_qbody r
  end.
Definition g_quoted : rec := g_seq (g_lit [34]) g_qbody.

Definition g_metric_name : rec := g_alt g_quoted (g_seq (g_char c_name0) (g_many c_name)).
Definition g_label_name : rec := g_alt g_quoted (g_seq (g_char c_label0) (g_many c_label)).
Definition g_label : rec := g_seq g_label_name (g_seq (g_lit [61]) g_quoted).

(* label (sep label)* with fuel = length of the input *)
Fixpoint g_labels_fuel (fuel : nat) (sep : str) (s : str) : option str :=
  match fuel with
  | O => None
  | S f => match g_label s with
           | None => None
           | Some r => match g_lit sep r with
                       | Some r' => g_labels_fuel f sep r'
                       | None => Some r
                       end
           end
  end.
Definition g_labels (sep : str) : rec := fun s => g_labels_fuel (S (length s)) sep s.

(* number tokens: +Inf -Inf NaN or a decimal / exponent literal over [0-9.e+-] *)
Definition c_num (c : char) := c_digit c || (c =? 46) || (c =? 101) || (c =? 43) || (c =? 45).
Definition g_value : rec :=
  g_alt (g_lit [43; 73; 110; 102]) (g_alt (g_lit [45; 73; 110; 102]) (g_alt (g_lit [78; 97; 78]) (g_many1 c_num))).
Definition g_int : rec := g_seq (g_opt (g_lit [45])) (g_many1 c_digit).

(* text up to the end of the line: anything but LF; backslashes only in the pairs BS BS and BS n (and BS DQ when dq) *)
Fixpoint g_doc (dq : bool) (s : str) : option str :=
  match s with
  | [] => Some []
  | c :: r =>
      if c =? 10 then None
      else if c =? 92 then
        match r with
        | d :: r' => if (d =? 92) || (d =? 110) || (dq && (d =? 34)) then g_doc dq r' else None
        | [] => None
        end
      else if dq && (c =? 34) then None
      else g_doc dq r
  end.

Definition SPC : str := [32].
Definition L_HELP : str := [35; 32; 72; 69; 76; 80; 32].
Definition L_TYPE : str := [35; 32; 84; 89; 80; 69; 32].
Definition L_UNIT : str := [35; 32; 85; 78; 73; 84; 32].
Definition L_EOF : str := [35; 32; 69; 79; 70].

Definition type_words_text : list str := Eval compute in
  map s2l ["counter"; "gauge"; "summary"; "histogram"; "untyped"]%string.
Definition type_words_om : list str := Eval compute in
  map s2l ["counter"; "gauge"; "summary"; "histogram"; "gaugehistogram"; "unknown"; "info"; "stateset"]%string.
Definition g_word (ws : list str) : rec := fun s => if mem_str s ws then Some [] else None.

Definition is_help_line (dq : bool) (l : str) : bool :=
  match g_seq (g_lit L_HELP) (g_seq g_metric_name (g_seq (g_lit SPC) (g_doc dq))) l with Some [] => true | _ => false end.
Definition is_type_line (ws : list str) (l : str) : bool :=
  match g_seq (g_lit L_TYPE) (g_seq g_metric_name (g_seq (g_lit SPC) (g_word ws))) l with Some [] => true | _ => false end.
(* the unit is free text up to the end of the line, escaped like help text *)
Definition is_unit_line (l : str) : bool :=
  match g_seq (g_lit L_UNIT) (g_seq g_metric_name (g_seq (g_lit SPC) (g_doc true))) l with Some [] => true | _ => false end.
Definition is_eof_line (l : str) : bool := str_eqb l L_EOF.

(* name{labels}, name, {qname}, {qname,labels}; sep2 is comma in text, comma-space in OpenMetrics *)
Definition g_series (sep2 : str) : rec :=
  g_alt
    (g_seq (g_seq (g_char c_name0) (g_many c_name))
           (g_opt (g_seq (g_lit [123]) (g_seq (g_labels [44]) (g_lit [125])))))
    (g_seq (g_lit [123]) (g_seq g_quoted
           (g_alt (g_lit [125]) (g_seq (g_lit sep2) (g_seq (g_labels [44]) (g_lit [125])))))).

Definition is_sample_line_text (l : str) : bool :=
  match g_seq (g_series [44]) (g_seq (g_lit SPC) (g_seq g_value (g_seq (g_opt (g_seq (g_lit SPC) g_int)) g_end))) l
  with Some [] => true | _ => false end.

(* OpenMetrics timestamps: int, sec.nanos, or a float literal *)
Definition g_om_ts : rec := g_many1 c_num.
Definition g_exemplar : rec :=
  g_seq (g_lit [32; 35; 32; 123])
        (g_seq (g_alt (g_lit [125]) (g_seq (g_labels [44]) (g_lit [125])))
               (g_seq (g_lit SPC) (g_seq g_value (g_opt (g_seq (g_lit SPC) g_om_ts))))).
(* a timestamp and an exemplar both start with a space: try ts-then-optional-exemplar first *)
Definition is_sample_line_om (l : str) : bool :=
  let tail :=
    g_alt (g_seq (g_lit SPC) (g_seq g_om_ts (g_seq (g_opt g_exemplar) g_end)))
          (g_seq (g_opt g_exemplar) g_end) in
  match g_seq (g_series [44; 32]) (g_seq (g_lit SPC) (g_seq g_value tail)) l
  with Some [] => true | _ => false end.

(* Graphite plaintext: path SP value SP timestamp; path = dot/semicolon-separated sanitised atoms *)
Definition c_graphite (c : char) := c_alpha c || c_digit c || (c =? 95) || (c =? 45).
Definition c_graphite_path (c : char) := c_graphite c || (c =? 46) || (c =? 59) || (c =? 61).
Definition c_gvalue (c : char) := c_num c || c_alpha c.
Definition is_graphite_line (l : str) : bool :=
  match g_seq (g_many1 c_graphite_path) (g_seq (g_lit SPC) (g_seq (g_many1 c_gvalue) (g_seq (g_lit SPC) (g_seq (g_many1 c_digit) g_end)))) l
  with Some [] => true | _ => false end.

(* a document = lines each terminated by LF *)
Fixpoint split_lines_acc (s : str) (cur : str) : list str * str :=
  match s with
  | [] => ([], rev cur)
  | c :: r => if c =? 10 then let '(ls, rest) := split_lines_acc r [] in (rev cur :: ls, rest)
              else split_lines_acc r (c :: cur)
  end.
(* (complete lines, unterminated remainder) *)
Definition split_lines (s : str) : list str * str := split_lines_acc s [].

Definition text_line_ok (l : str) : bool :=
  is_help_line false l || is_type_line type_words_text l || is_sample_line_text l.
Definition om_line_ok (l : str) : bool :=
  is_help_line true l || is_type_line type_words_om l || is_unit_line l || is_sample_line_om l.

Definition text_doc_ok (s : str) : bool :=
  let '(ls, rest) := split_lines s in
  match rest with [] => forallb text_line_ok ls | _ => false end.
(* every line well formed, exactly one # EOF and it is the last line *)
Definition om_doc_ok (s : str) : bool :=
  let '(ls, rest) := split_lines s in
  match rest, rev ls with
  | [], last :: body => is_eof_line last && forallb om_line_ok (rev body)
  | _, _ => false
  end.
