(* Model of prometheus_client/context_managers.py (ExceptionCounter, InprogressTracker, Timer), of the
   factories Counter.count_exceptions / Gauge.track_inprogress / {Gauge,Summary,Histogram}.time in metrics.py,
   and of what the vendored decorator.py (FunctionMaker / decorate) generates around a decorated function.

   Part (a): a small call language with a big-step evaluator over (metric state, scripted clock).
   Part (b): Python's argument binding and the generated forwarding wrapper.
   Definitions only. *)
From V Require Import lib.PyBase.
Open Scope N_scope.

(* ====================================================================================================== *)
(* Part (a)                                                                                               *)
(* ====================================================================================================== *)

Definition val := N.        (* identity of a Python object; 0 is None *)
Definition mid := N.        (* identity of a metric object or of one labelled child *)
Definition V_None : val := 0.

(* ---- exception classes: a finite hierarchy ----
   An exception GROUP (PEP 654) is, for everything modelled here, just another class of the hierarchy:
   ExceptionCounter.__exit__ evaluates isinstance(value, self._exception) on the escaping object, and isinstance
   looks at the class of that object only - never at the exceptions a group holds, nor at __cause__ / __context__.
   So a raised group is `Raise C_ExceptionGroup o` (its members are not part of the model: nothing may depend on
   them).  ExceptionGroup has TWO bases (BaseExceptionGroup, Exception): the hierarchy is a DAG, not a tree. *)
Inductive cls :=
  | C_BaseException | C_Exception | C_KeyboardInterrupt | C_SystemExit | C_GeneratorExit
  | C_ArithmeticError | C_ZeroDivisionError | C_LookupError | C_KeyError | C_IndexError
  | C_ValueError | C_UnicodeError | C_TypeError | C_OSError | C_FileNotFoundError
  | C_RuntimeError | C_RecursionError | C_StopIteration
  | C_UserError        (* class UserError(Exception) *)
  | C_UserKeyError     (* class UserKeyError(KeyError) *)
  | C_UserBase         (* class UserBase(BaseException) *)
  | C_UserExit         (* class UserExit(SystemExit) *)
  | C_BaseExceptionGroup   (* builtin, base BaseException *)
  | C_ExceptionGroup       (* builtin, bases (BaseExceptionGroup, Exception) *)
  | C_UserGroup            (* class UserGroup(ExceptionGroup) *)
  | C_UserBaseGroup        (* class UserBaseGroup(BaseExceptionGroup) *)
  | C_UserProxy            (* class UserProxy(KeyError) whose instances answer __class__ with LookupError *)
  | C_UserMeta             (* class UserMeta(ArithmeticError, metaclass=...) *)
  (* Distinct classes that carry the SAME __module__, __qualname__ and __name__ (made by one factory function with
     different bases, or called like a builtin): a class is the class OBJECT - isinstance walks the bases of the
     object's type, names play no part - so each is one more node of the hierarchy. *)
  | C_TwinKeyError         (* make_twin(KeyError):   class Twin(KeyError) *)
  | C_TwinValueError       (* make_twin(ValueError): class Twin(ValueError) *)
  | C_TwinExit             (* make_twin(SystemExit): class Twin(SystemExit) *)
  | C_ShadowValueError.    (* class ValueError(OSError) with __module__ = 'builtins': not the builtin ValueError *)

Definition cls_tag (c : cls) : N :=
  match c with
  | C_BaseException => 0 | C_Exception => 1 | C_KeyboardInterrupt => 2 | C_SystemExit => 3
  | C_GeneratorExit => 4 | C_ArithmeticError => 5 | C_ZeroDivisionError => 6 | C_LookupError => 7
  | C_KeyError => 8 | C_IndexError => 9 | C_ValueError => 10 | C_UnicodeError => 11 | C_TypeError => 12
  | C_OSError => 13 | C_FileNotFoundError => 14 | C_RuntimeError => 15 | C_RecursionError => 16
  | C_StopIteration => 17 | C_UserError => 18 | C_UserKeyError => 19 | C_UserBase => 20 | C_UserExit => 21
  | C_BaseExceptionGroup => 22 | C_ExceptionGroup => 23 | C_UserGroup => 24 | C_UserBaseGroup => 25
  | C_UserProxy => 26 | C_UserMeta => 27
  | C_TwinKeyError => 28 | C_TwinValueError => 29 | C_TwinExit => 30 | C_ShadowValueError => 31
  end.
Definition cls_eqb (a b : cls) : bool := N.eqb (cls_tag a) (cls_tag b).

(* the direct base classes, in the order of the class statement *)
Definition parents (c : cls) : list cls :=
  match c with
  | C_BaseException => []
  | C_Exception | C_KeyboardInterrupt | C_SystemExit | C_GeneratorExit | C_UserBase
  | C_BaseExceptionGroup => [C_BaseException]
  | C_ArithmeticError | C_LookupError | C_ValueError | C_TypeError | C_OSError | C_RuntimeError
  | C_StopIteration | C_UserError => [C_Exception]
  | C_ZeroDivisionError | C_UserMeta => [C_ArithmeticError]
  | C_KeyError | C_IndexError => [C_LookupError]
  | C_UnicodeError | C_TwinValueError => [C_ValueError]
  | C_FileNotFoundError | C_ShadowValueError => [C_OSError]
  | C_RecursionError => [C_RuntimeError]
  | C_UserKeyError | C_UserProxy | C_TwinKeyError => [C_KeyError]
  | C_UserExit | C_TwinExit => [C_SystemExit]
  | C_ExceptionGroup => [C_BaseExceptionGroup; C_Exception]
  | C_UserGroup => [C_ExceptionGroup]
  | C_UserBaseGroup => [C_BaseExceptionGroup]
  end.

(* issubclass(c, d): walk up the hierarchy through every base (its height is 4) *)
Fixpoint issub_fuel (fuel : nat) (c d : cls) : bool :=
  cls_eqb c d ||
  match fuel with
  | O => false
  | S f => existsb (fun p => issub_fuel f p d) (parents c)
  end.
Definition issubclass (c d : cls) : bool := issub_fuel 5 c d.

(* specification side: descent in the class hierarchy *)
Inductive Ancestor : cls -> cls -> Prop :=
  | anc_refl c : Ancestor c c
  | anc_step c p d : In p (parents c) -> Ancestor p d -> Ancestor c d.

(* isinstance(value, (d1, ..., dn)) for a flat tuple of classes: the handler clause `except (d1, ..., dn):` of Try *)
Definition isinstance_any (c : cls) (ds : list cls) : bool := existsb (issubclass c) ds.

(* What Counter.count_exceptions(exception) is given and hands, unchanged, to ExceptionCounter, whose __exit__
   evaluates isinstance(value, self._exception): a class, or a tuple whose elements are again classes or tuples,
   nested to any depth - the empty tuple and repeated classes included.  (The same shape `except <spec>` accepts.) *)
Inductive espec :=
  | EClass (d : cls)
  | ETuple (l : list espec).

(* isinstance(value, spec) for an exception object of class k: CPython recurses into tuples, left to right *)
Fixpoint isinstance_spec (k : cls) (e : espec) : bool :=
  match e with
  | EClass d => issubclass k d
  | ETuple l => existsb (isinstance_spec k) l
  end.

(* the classes named anywhere in a spec, in order, repetitions kept *)
Fixpoint spec_classes (e : espec) : list cls :=
  match e with
  | EClass d => [d]
  | ETuple l => flat_map spec_classes l
  end.

(* specification side: what `except <spec>:` catches *)
Inductive Matches (k : cls) : espec -> Prop :=
  | m_class d : Ancestor k d -> Matches k (EClass d)
  | m_tuple l e : In e l -> Matches k e -> Matches k (ETuple l).

(* the default of the parameter: count_exceptions(exception=Exception) *)
Definition default_exceptions : espec := EClass C_Exception.

(* ---- outcomes ---- *)
Inductive outcome := Ret (v : val) | Exn (c : cls) (o : val).   (* o = identity of the exception object *)

(* ---- state ---- *)
Record st := mkSt {
  cnt : mid -> N;             (* Counter: number of inc() *)
  gau : mid -> Z;             (* Gauge value (inc/dec by one, set(duration)) *)
  olog : list (mid * Z);      (* callbacks made by timers: observe(d) / set(d), oldest first *)
  plog : list (mid * Z);      (* what the probes inside bodies read from gauges, oldest first *)
  t_fresh : N -> Z;           (* Timer._start of the Timer objects made by _new_timer() / m.time() *)
  next_t : N;                 (* allocation counter for those *)
  t_held : N -> Z;            (* Timer._start of Timer objects the application keeps and re-uses *)
  clock : list Z              (* readings default_timer() will return, in order; 0 when exhausted *)
}.

Definition upd {A} (f : N -> A) (k : N) (v : A) : N -> A := fun k' => if N.eqb k' k then v else f k'.

Definition set_cnt s f := mkSt f (gau s) (olog s) (plog s) (t_fresh s) (next_t s) (t_held s) (clock s).
Definition set_gau s f := mkSt (cnt s) f (olog s) (plog s) (t_fresh s) (next_t s) (t_held s) (clock s).
Definition set_olog s l := mkSt (cnt s) (gau s) l (plog s) (t_fresh s) (next_t s) (t_held s) (clock s).
Definition set_plog s l := mkSt (cnt s) (gau s) (olog s) l (t_fresh s) (next_t s) (t_held s) (clock s).
Definition set_fresh s f := mkSt (cnt s) (gau s) (olog s) (plog s) f (next_t s) (t_held s) (clock s).
Definition set_next s n := mkSt (cnt s) (gau s) (olog s) (plog s) (t_fresh s) n (t_held s) (clock s).
Definition set_held s f := mkSt (cnt s) (gau s) (olog s) (plog s) (t_fresh s) (next_t s) f (clock s).
Definition set_clock s c := mkSt (cnt s) (gau s) (olog s) (plog s) (t_fresh s) (next_t s) (t_held s) c.

(* default_timer() *)
Definition tick (s : st) : Z * st :=
  match clock s with
  | [] => (0%Z, s)
  | r :: rest => (r, set_clock s rest)
  end.

(* ---- the three context managers ---- *)
Inductive tref := Fresh (i : N) | Held (i : N).
Inductive target := TObserve (m : mid) | TSet (g : mid).    (* Timer(metric, 'observe') / Timer(gauge, 'set') *)
Definition target_mid (t : target) : mid := match t with TObserve m => m | TSet g => g end.

Inductive cm :=
  | CmCount (c : mid) (excs : espec)        (* ExceptionCounter(counter, exception) *)
  | CmTrack (g : mid)                       (* InprogressTracker(gauge) *)
  | CmTimer (t : tref) (tg : target).       (* a Timer object *)

Definition get_start (t : tref) (s : st) : Z :=
  match t with Fresh i => t_fresh s i | Held i => t_held s i end.
Definition put_start (t : tref) (r : Z) (s : st) : st :=
  match t with Fresh i => set_fresh s (upd (t_fresh s) i r) | Held i => set_held s (upd (t_held s) i r) end.

(* getattr(self._metric, self._callback_name)(duration) *)
Definition callback (tg : target) (d : Z) (s : st) : st :=
  let s' := set_olog s (olog s ++ [(target_mid tg, d)]) in
  match tg with
  | TObserve _ => s'
  | TSet g => set_gau s' (upd (gau s') g d)
  end.

Definition cm_enter (m : cm) (s : st) : st :=
  match m with
  | CmCount _ _ => s                                                    (* pass *)
  | CmTrack g => set_gau s (upd (gau s) g (gau s g + 1)%Z)              (* self._gauge.inc() *)
  | CmTimer t _ => let '(r, s1) := tick s in put_start t r s1           (* self._start = default_timer() *)
  end.

(* __exit__(typ, value, traceback): new state and the truth value of what it returns *)
Definition cm_exit (m : cm) (o : outcome) (s : st) : bool * st :=
  match m with
  | CmCount c excs =>
      (false,                                                            (* return False *)
       match o with
       | Exn k _ => if isinstance_spec k excs then set_cnt s (upd (cnt s) c (cnt s c + 1)) else s
       | Ret _ => s                                                      (* isinstance(None, ...) is False *)
       end)
  | CmTrack g => (false, set_gau s (upd (gau s) g (gau s g - 1)%Z))      (* self._gauge.dec(); returns None *)
  | CmTimer t tg =>
      let '(r, s1) := tick s in
      let d := Z.max (r - get_start t s1) 0 in                           (* max(default_timer() - self._start, 0) *)
      (false, callback tg d s1)                                          (* returns None *)
  end.

(* the `with` statement *)
Definition with_stmt (m : cm) (blk : st -> outcome * st) (s : st) : outcome * st :=
  let s1 := cm_enter m s in
  let '(o, s2) := blk s1 in
  let '(swallow, s3) := cm_exit m o s2 in
  (match o with Exn _ _ => if swallow then Ret V_None else o | Ret _ => o end, s3).

(* ---- wrappers as the application writes them ---- *)
Inductive wrapper :=
  | WCount (c : mid) (excs : espec)       (* the ExceptionCounter c.count_exceptions(...) returns *)
  | WTrack (g : mid)                      (* g.track_inprogress() *)
  | WTime (tg : target).                  (* m.time() *)

(* Counter.count_exceptions(self, exception=Exception): `return ExceptionCounter(self, exception)`.
   arg = None models the call without argument; an argument that is given is passed on as it is, whatever
   its truth value (the empty tuple is false) *)
Definition count_exceptions (c : mid) (arg : option espec) : wrapper :=
  WCount c (match arg with Some e => e | None => default_exceptions end).

(* What `wrapped(func, *args, **kwargs)` (decorator use) or `with m.xxx():` (block use) enters:
   ExceptionCounter / InprogressTracker enter themselves; Timer enters self._new_timer(), and m.time()
   constructs a new Timer, so either way a Timer object nobody else holds.
   ExceptionCounter and InprogressTracker carry nothing but (metric, configuration), neither of which changes after
   construction: the context a wrapper enters is a function of the wrapper alone, whichever ExceptionCounter /
   InprogressTracker object (a new one, or one the application kept and already used - as a with-block manager or
   as the decorator around a function called again and again) it is entered through.  So `Call w b` also stands
   for the n-th use of one shared wrapper object, with whatever history of escaped exception classes. *)
Definition make_cm (w : wrapper) (s : st) : cm * st :=
  match w with
  | WCount c excs => (CmCount c excs, s)
  | WTrack g => (CmTrack g, s)
  | WTime tg => (CmTimer (Fresh (next_t s)) tg, set_next s (next_t s + 1))
  end.

(* ---- bodies ---- *)
Inductive body :=
  | Return (v : val)
  | Raise (c : cls) (o : val)
  | Probe (g : mid)                                  (* the body reads gauge g; evaluates to None *)
  | Seq (b1 b2 : body)                               (* b1; b2 *)
  | Try (b : body) (cs : list cls) (h : body)        (* try: b  except cs: h *)
  | Call (w : wrapper) (b : body)                    (* decorated function with body b called, or `with w: b` *)
  | WithHeld (t : N) (tg : target) (b : body).       (* `with T: b` where T is a Timer object kept by the application *)

Fixpoint eval (b : body) (s : st) : outcome * st :=
  match b with
  | Return v => (Ret v, s)
  | Raise c o => (Exn c o, s)
  | Probe g => (Ret V_None, set_plog s (plog s ++ [(g, gau s g)]))
  | Seq b1 b2 =>
      match eval b1 s with
      | (Ret _, s1) => eval b2 s1
      | (Exn c o, s1) => (Exn c o, s1)
      end
  | Try b1 cs h =>
      match eval b1 s with
      | (Ret v, s1) => (Ret v, s1)
      | (Exn c o, s1) => if isinstance_any c cs then eval h s1 else (Exn c o, s1)
      end
  | Call w b1 => let '(m, s1) := make_cm w s in with_stmt m (eval b1) s1
  | WithHeld t tg b1 => with_stmt (CmTimer (Held t) tg) (eval b1) s
  end.

(* the same program with every wrapper removed *)
Fixpoint erase (b : body) : body :=
  match b with
  | Return v => Return v
  | Raise c o => Raise c o
  | Probe g => Probe g
  | Seq b1 b2 => Seq (erase b1) (erase b2)
  | Try b1 cs h => Try (erase b1) cs (erase h)
  | Call _ b1 => erase b1
  | WithHeld _ _ b1 => erase b1
  end.

(* what the program does when nothing is wrapped: no state needed *)
Fixpoint result (b : body) : outcome :=
  match b with
  | Return v => Ret v
  | Raise c o => Exn c o
  | Probe _ => Ret V_None
  | Seq b1 b2 => match result b1 with Ret _ => result b2 | Exn c o => Exn c o end
  | Try b1 cs h =>
      match result b1 with
      | Ret v => Ret v
      | Exn c o => if isinstance_any c cs then result h else Exn c o
      end
  | Call _ b1 => result b1
  | WithHeld _ _ b1 => result b1
  end.

Definition escapes_matching (b : body) (excs : espec) : bool :=
  match result b with Exn k _ => isinstance_spec k excs | Ret _ => false end.

(* f recursing k more times before running b: k+1 nested decorated calls *)
Fixpoint recurse (k : nat) (w : wrapper) (b : body) : body :=
  match k with O => Call w b | S k' => Call w (recurse k' w b) end.

(* ---- specification-side counters (pure functions of the program text) ---- *)
Definition is_timer (w : wrapper) : bool := match w with WTime _ => true | _ => false end.

(* number of Timer contexts entered *)
Fixpoint timers_entered (b : body) : nat :=
  match b with
  | Return _ | Raise _ _ | Probe _ => O
  | Seq b1 b2 => (timers_entered b1 + match result b1 with Ret _ => timers_entered b2 | Exn _ _ => O end)%nat
  | Try b1 cs h =>
      (timers_entered b1 +
       match result b1 with
       | Exn c _ => if isinstance_any c cs then timers_entered h else O
       | Ret _ => O
       end)%nat
  | Call w b1 => ((if is_timer w then 1 else 0) + timers_entered b1)%nat
  | WithHeld _ _ b1 => S (timers_entered b1)
  end.

(* number of count_exceptions contexts on counter c out of which a matching exception escapes *)
Fixpoint counted (c : mid) (b : body) : N :=
  match b with
  | Return _ | Raise _ _ | Probe _ => 0
  | Seq b1 b2 => counted c b1 + match result b1 with Ret _ => counted c b2 | Exn _ _ => 0 end
  | Try b1 cs h =>
      counted c b1 +
      match result b1 with
      | Exn k _ => if isinstance_any k cs then counted c h else 0
      | Ret _ => 0
      end
  | Call w b1 =>
      counted c b1 +
      match w with
      | WCount c' excs => if N.eqb c c' && escapes_matching b1 excs then 1 else 0
      | _ => 0
      end
  | WithHeld _ _ b1 => counted c b1
  end.

(* gauge g is not the target of a set-Timer anywhere in b *)
Fixpoint no_set_on (g : mid) (b : body) : bool :=
  match b with
  | Return _ | Raise _ _ | Probe _ => true
  | Seq b1 b2 => no_set_on g b1 && no_set_on g b2
  | Try b1 _ h => no_set_on g b1 && no_set_on g h
  | Call w b1 =>
      match w with WTime (TSet g') => negb (N.eqb g g') | _ => true end && no_set_on g b1
  | WithHeld _ tg b1 =>
      match tg with TSet g' => negb (N.eqb g g') | _ => true end && no_set_on g b1
  end.

(* no Timer in b sets any gauge *)
Fixpoint no_set_timer (b : body) : bool :=
  match b with
  | Return _ | Raise _ _ | Probe _ => true
  | Seq b1 b2 => no_set_timer b1 && no_set_timer b2
  | Try b1 _ h => no_set_timer b1 && no_set_timer h
  | Call w b1 => match w with WTime (TSet _) => false | _ => true end && no_set_timer b1
  | WithHeld _ tg b1 => match tg with TSet _ => false | _ => true end && no_set_timer b1
  end.

(* what the probes must read: base value plus the number of enclosing track_inprogress on that gauge *)
Fixpoint probe_spec (base : mid -> Z) (b : body) : list (mid * Z) :=
  match b with
  | Return _ | Raise _ _ => []
  | Probe g => [(g, base g)]
  | Seq b1 b2 => probe_spec base b1 ++ match result b1 with Ret _ => probe_spec base b2 | Exn _ _ => [] end
  | Try b1 cs h =>
      probe_spec base b1 ++
      match result b1 with
      | Exn k _ => if isinstance_any k cs then probe_spec base h else []
      | Ret _ => []
      end
  | Call w b1 =>
      match w with
      | WTrack g => probe_spec (upd base g (base g + 1)%Z) b1
      | _ => probe_spec base b1
      end
  | WithHeld _ _ b1 => probe_spec base b1
  end.

Definition init_st (clk : list Z) : st :=
  mkSt (fun _ => 0) (fun _ => 0%Z) [] [] (fun _ => 0%Z) 0 (fun _ => 0%Z) clk.

(* observation used by the driver: outcome, counters / gauges of the listed metrics, both logs *)
Definition run_body (b : body) (clk : list Z) (ms : list mid)
  : outcome * (list N * (list Z * (list (mid * Z) * list (mid * Z)))) :=
  let '(o, s) := eval b (init_st clk) in
  (o, (map (cnt s) ms, (map (gau s) ms, (olog s, plog s)))).

(* ====================================================================================================== *)
(* Part (b): argument binding and the generated wrapper                                                   *)
(* ====================================================================================================== *)

Record params := mkParams {
  posonly : list str;              (* before the `/` *)
  args : list str;                 (* positional-or-keyword *)
  defaults : list val;             (* __defaults__: for the LAST |defaults| of posonly ++ args *)
  varargs : option str;            (* *name *)
  kwonly : list str;
  kwdefaults : assoc str val;      (* __kwdefaults__ *)
  varkw : option str               (* **name *)
}.

(* what the function sees after binding *)
Record env := mkEnv {
  e_pos : list val;                (* values of posonly ++ args, in order *)
  e_var : list val;                (* the *args tuple (empty when there is none) *)
  e_kwo : list val;                (* values of the keyword-only parameters, in order *)
  e_kw : assoc str val             (* the **kwargs dict, in call order (empty when there is none) *)
}.

Definition has {A} (o : option A) : bool := match o with Some _ => true | None => false end.
Definition nonempty {A} (l : list A) : bool := match l with [] => false | _ => true end.
Definition kw_find (kw : assoc str val) (k : str) : option val := d_find str_eqb kw k.
Definition kw_mem (kw : assoc str val) (k : str) : bool := has (kw_find kw k).

(* each positional parameter with `may it be passed by keyword` *)
Definition pos_names (p : params) : list (str * bool) :=
  map (fun n => (n, false)) (posonly p) ++ map (fun n => (n, true)) (args p).

(* defaults aligned with the positional parameters *)
Definition align (n : nat) (ds : list val) : list (option val) :=
  repeat None (n - length ds) ++ map Some ds.

Fixpoint bind_pos (names : list (str * bool)) (dfl : list (option val)) (pos : list val)
                  (kw : assoc str val) : res (list val) :=
  match names with
  | [] => Ok []
  | (nm, kwable) :: names' =>
      let d := hd None dfl in
      let dfl' := tl dfl in
      match pos with
      | v :: pos' =>
          if kwable && kw_mem kw nm then Err TypeError               (* multiple values for argument *)
          else do r <- bind_pos names' dfl' pos' kw; Ok (v :: r)
      | [] =>
          match (if kwable then kw_find kw nm else None) with
          | Some v => do r <- bind_pos names' dfl' [] kw; Ok (v :: r)
          | None =>
              match d with
              | Some v => do r <- bind_pos names' dfl' [] kw; Ok (v :: r)
              | None => Err TypeError                                  (* missing required positional argument *)
              end
          end
      end
  end.

Fixpoint bind_kwonly (ks : list str) (kwd : assoc str val) (kw : assoc str val) : res (list val) :=
  match ks with
  | [] => Ok []
  | k :: ks' =>
      match kw_find kw k with
      | Some v => do r <- bind_kwonly ks' kwd kw; Ok (v :: r)
      | None =>
          match kw_find kwd k with
          | Some v => do r <- bind_kwonly ks' kwd kw; Ok (v :: r)
          | None => Err TypeError                                      (* missing required keyword-only argument *)
          end
      end
  end.

(* the keywords no named parameter takes: names of positional-only parameters are among them *)
Definition leftover (p : params) (kw : assoc str val) : assoc str val :=
  filter (fun kv => negb (mem_str (fst kv) (args p ++ kwonly p))) kw.

(* the call f( *pos, **kw ) for a function with parameters p.  Every failure is a TypeError. *)
Definition bind_args (p : params) (pos : list val) (kw : assoc str val) : res env :=
  let nm := pos_names p in
  let n := length nm in
  let extra := skipn n pos in
  if nonempty extra && negb (has (varargs p)) then Err TypeError      (* too many positional arguments *)
  else
    let lo := leftover p kw in
    if nonempty lo && negb (has (varkw p)) then Err TypeError         (* unexpected keyword / positional-only as keyword *)
    else
      do ep <- bind_pos nm (align n (defaults p)) pos kw;
      do ek <- bind_kwonly (kwonly p) (kwdefaults p) kw;
      Ok (mkEnv ep extra ek lo).

(* ---- decorator.py ---- *)
Record argspec := mkSpec {
  s_args : list str; s_varargs : option str; s_varkw : option str; s_defaults : list val;
  s_kwonly : list str; s_kwdefaults : assoc str val
}.

(* inspect.getfullargspec: positional-only parameters are reported among args *)
Definition getfullargspec (p : params) : argspec :=
  mkSpec (posonly p ++ args p) (varargs p) (varkw p) (defaults p) (kwonly p) (kwdefaults p).

Definition STAR : str := Eval compute in s2l "*".
Definition COMMA_SP : str := Eval compute in s2l ", ".
Definition EQ_NONE : str := Eval compute in s2l "=None".
Definition EQ : str := Eval compute in s2l "=".
Definition N_FUNC : str := Eval compute in s2l "_func_".
Definition N_CALL : str := Eval compute in s2l "_call_".
Definition N_func : str := Eval compute in s2l "func".
Definition N_args : str := Eval compute in s2l "args".
Definition N_kwargs : str := Eval compute in s2l "kwargs".
Definition N_lambda : str := Eval compute in s2l "<lambda>".
Definition N_lambda_hack : str := Eval compute in s2l "_lambda_".

Definition join_comma (l : list str) : str :=
  match l with [] => [] | x :: r => x ++ flat_map (fun y => COMMA_SP ++ y) r end.

(* FunctionMaker.__init__, "Python 3 way" *)
Definition allargs (a : argspec) : list str :=
  s_args a
  ++ match s_varargs a with
     | Some v => [STAR ++ v]
     | None => if nonempty (s_kwonly a) then [STAR] else []
     end
  ++ map (fun k => k ++ EQ_NONE) (s_kwonly a)
  ++ match s_varkw a with Some k => [STAR ++ STAR ++ k] | None => [] end.

Definition allshortargs (a : argspec) : list str :=
  s_args a
  ++ match s_varargs a with Some v => [STAR ++ v] | None => [] end
  ++ map (fun k => k ++ EQ ++ k) (s_kwonly a)
  ++ match s_varkw a with Some k => [STAR ++ STAR ++ k] | None => [] end.

Definition signature (a : argspec) : str := join_comma (allargs a).
Definition shortsignature (a : argspec) : str := join_comma (allshortargs a).

(* FunctionMaker.name *)
Definition maker_name (name : str) : str := if str_eqb name N_lambda then N_lambda_hack else name.

(* __name__ of the decorated callable: FunctionMaker.update sets it to FunctionMaker.name (pinned source);
   decorate() now restores the original name afterwards *)
Definition decorated_name_orig (name : str) : str := maker_name name.
Definition decorated_name (name : str) : str := name.

(* arg.strip(' *') on one element of shortsignature.split(',') *)
Fixpoint lstrip_sp_star (s : str) : str :=
  match s with
  | c :: r => if N.eqb c 32 || N.eqb c 42 then lstrip_sp_star r else s
  | [] => []
  end.
Definition strip_sp_star (s : str) : str := rev (lstrip_sp_star (rev (lstrip_sp_star s))).

(* FunctionMaker.make: NameError when the function name or a shortsignature element is _func_ / _call_.
   A keyword-only parameter appears there as `k=k` and so is never recognised. *)
Definition make_check (name : str) (a : argspec) : res unit :=
  let names := maker_name name :: map strip_sp_star (match allshortargs a with [] => [[]] | l => l end) in
  if existsb (fun n => str_eqb n N_FUNC || str_eqb n N_CALL) names then Err OtherExn (* NameError *) else Ok tt.

(* the parameters of `def name(signature): ...` exactly as compiled *)
Definition generated_params (a : argspec) : params :=
  mkParams [] (s_args a) [] (s_varargs a) (s_kwonly a) (map (fun k => (k, V_None)) (s_kwonly a)) (s_varkw a).

(* FunctionMaker.update: __defaults__ and __kwdefaults__ are overwritten from the argspec *)
Definition update_params (a : argspec) (g : params) : params :=
  mkParams (posonly g) (args g) (s_defaults a) (varargs g) (kwonly g) (s_kwdefaults a) (varkw g).

Definition wrapper_params (p : params) : params :=
  let a := getfullargspec p in update_params a (generated_params a).

(* the call expression  _call_(_func_, <shortsignature>)  evaluated in the wrapper's frame *)
Definition forward (ks : list str) (e : env) : list val * assoc str val :=
  (e_pos e ++ e_var e, combine ks (e_kwo e) ++ e_kw e).

(* a keyword-only parameter called _call_ or _func_ shadows the global of that name in the generated body *)
Definition shadowed (p : params) : bool := mem_str N_CALL (kwonly p) || mem_str N_FUNC (kwonly p).

(* `def wrapped(func, *args, **kwargs)` in the three __call__ methods as pinned ... *)
Definition caller_params_orig : params := mkParams [] [N_func] [] (Some N_args) [] [] (Some N_kwargs).
(* ... and after the repair `def wrapped(func, /, *args, **kwargs)` *)
Definition caller_params : params := mkParams [N_func] [] [] (Some N_args) [] [] (Some N_kwargs).

(* calling the decorated function with pos and kw: bind in the generated function, forward through `wrapped`, bind in f.
   (Arguments are plain objects: calling a shadowing one is a TypeError.) *)
Definition wrapped_call_with (cp : params) (p : params) (f : val) (pos : list val) (kw : assoc str val) : res env :=
  do e <- bind_args (wrapper_params p) pos kw;
  if shadowed p then Err TypeError
  else
    let '(pos1, kw1) := forward (kwonly p) e in
    do ec <- bind_args cp (f :: pos1) kw1;
    bind_args p (e_var ec) (e_kw ec).

Definition wrapped_call := wrapped_call_with caller_params.
Definition wrapped_call_orig := wrapped_call_with caller_params_orig.

(* decorate(f, caller) as a whole: NameError at decoration time, else the callable above *)
Definition decorate_ok (name : str) (p : params) : bool :=
  match make_check name (getfullargspec p) with Ok _ => true | Err _ => false end.

(* well-formed parameter lists (what `def` accepts) and calls (keywords are distinct) *)
Definition opt_list {A} (o : option A) : list A := match o with Some x => [x] | None => [] end.
Definition all_names (p : params) : list str :=
  posonly p ++ args p ++ opt_list (varargs p) ++ kwonly p ++ opt_list (varkw p).
