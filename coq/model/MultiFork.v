(* C08 over worker histories WITH FORKS - model/MultiHist.v extended by os.fork() of a process that already holds
   metric objects (a pre-forking server: the master constructs and updates metrics, then forks its workers; a worker may
   fork again).
     - FFork p c: the process with pid p forks; the new process c holds a copy of every metric object of p (the `shape`:
       which children exist) and of p's value closure (values.py: `files`, `values`, `pid`).  NOTHING is written at the
       fork: the copy of the closure still names p's files, but no method of a value object runs.
     - the FIRST call of c that reaches a value object - MmapedValue.__init__ (a metric or a labels() child is
       constructed), inc, set - starts with __check_for_pid_change(): the identity differs from the recorded one, so the
       inherited files are closed and forgotten and EVERY value object of the closure is __reset() against the files of
       the new pid: each inherited series gets its cell in {typ}[_{mode}]_{c}.db (0.0, 0.0 when the key is new there, the
       stored pair otherwise - MmapedValue.__reset reads), and only then does the call itself run, on c's files.
       `rebind` is that loop.  values.py runs it in the creation order of the value objects; the model runs it family by
       family (the metric objects' own cells first, as Equiv.mp_init_fs does, then the children of every labelled family
       in their creation order): the two orders give the same files with the same cells, the entries of one file may be
       listed in a different order, which the collector's result does not depend on (distinct keys of one file are
       distinct series).
     - a call of a forked process that reaches no value object (labels() for a child it holds already, a call that
       raises before it gets to the value: unknown method, wrong number of label values, Counter.inc of a negative
       amount, Gauge.inc in a mostrecent mode) writes nothing and leaves the process pending.
     - every other step is MultiHist.mh_step; HStart / HDead of a pid end whatever was pending under that pid.
   `touches` is the case analysis of Equiv.mp_step: does this call get to a value object.
   Definitions only.  Parametric in the float type. *)
From V Require Import lib.PyBase.
From V Require model.Multiproc model.Values.
From V Require Import model.Metrics model.Equiv model.MultiHist.
Open Scope N_scope.

Section MultiFork.
  Variable F : Type.
  Variables fzero fone : F.
  Variable fadd : F -> F -> F.
  Variable fneg : F -> F.
  Variables flt fle feqb : F -> F -> bool.
  Variable of_Z : Z -> res F.
  Variable zlef : Z -> F -> bool.
  Variable fmt_le : F -> str.

  Notation fs := (Values.fs F).
  Notation shape := (shape F).
  Notation mcall := (mcall F).
  Notation mop := (mop F).
  Notation mh_step := (mh_step F fzero fone fadd fneg flt fle feqb of_Z zlef fmt_le).
  Notation mp_create := (mp_create F fzero).
  Notation mp_init_fs := (mp_init_fs F fzero fmt_le).

  Inductive fstep :=
  | FStep (st : hstep F)
  | FFork (parent child : str).

  (* f_pending: the forked processes that have not reached a value object since their fork *)
  Record mf := mkMF { f_mh : mh F; f_pending : list str }.
  Definition mf_init : mf := mkMF (mh_init F) [].

  (* ----- `for value in values: value.__reset()` under the new pid ----- *)
  Definition rebind_fam (pid : str) (fam : shape) (me : fmeta) (d : fs) : fs :=
    fold_left (fun d kc => mp_create d (fam_file F fam me pid) (cell_keys F fmt_le fam me (fst kc))) (f_children fam) d.
  Fixpoint rebind_children (pid : str) (sh : list shape) (metas : list fmeta) (d : fs) : fs :=
    match sh, metas with
    | fam :: fr, me :: mr => rebind_children pid fr mr (rebind_fam pid fam me d)
    | _, _ => d
    end.
  Definition rebind (pid : str) (sh : list shape) (metas : list fmeta) (d : fs) : fs :=
    rebind_children pid sh metas (mp_init_fs pid sh metas d).

  (* ----- does the call get to a value object ----- *)
  (* the update methods of metrics.py: which of them call inc/set of a value object before they can raise *)
  Definition reaches (k : mkind) (m : mop) : bool :=
    match k, m with
    | KCounter, Inc a => negb (alt0 fzero flt a)                         (* `if amount < 0: raise ValueError` comes first *)
    | KCounter, Reset => true
    | KGauge, Inc _ | KGauge, Dec _ => true
    | KGauge, SetV a => match to_F of_Z a with Ok _ => true | Err _ => false end    (* set(float(value)): float() first *)
    | KSummary, Observe _ | KHistogram, Observe _ => true
    | _, _ => false
    end.

  Definition held (fam : shape) (k : key) : bool :=
    match d_find key_eqb (f_children fam) k with Some _ => true | None => false end.

  Definition touches (metas : list fmeta) (sh : list shape) (o : mcall) : bool :=
    match o with
    | CUpd f a m =>
        match nth_error sh f, nth_error metas f with
        | Some fam, Some me =>
            match resolve (f_labelnames fam) a with
            | Err _ => false
            | Ok None =>
                is_nil (f_labelnames fam) && negb (mr_blocked F (f_kind fam) (fm_mode me) m) && reaches (f_kind fam) m
            | Ok (Some k) =>
                negb (held fam k) || (negb (mr_blocked F (f_kind fam) (fm_mode me) m) && reaches (f_kind fam) m)
            end
        | _, _ => false
        end
    | CLabels f a =>
        match nth_error sh f, nth_error metas f with
        | Some fam, Some _ =>
            match resolve (f_labelnames fam) a with
            | Ok (Some k) => negb (held fam k)
            | _ => false
            end
        | _, _ => false
        end
    | _ => false
    end.

  Definition drop_pid (p : str) (l : list str) : list str := filter (fun q => negb (str_eqb q p)) l.

  Definition lift (pend : list str) (r : mh F * res unit) : mf * res unit := (mkMF (fst r) pend, snd r).

  Definition mf_step (fams : list shape) (metas : list fmeta) (s : mf) (st : fstep) : mf * res unit :=
    match st with
    | FFork p c =>
        match d_find str_eqb (h_procs F (f_mh s)) p with
        | None => (s, Ok tt)                                   (* no such process *)
        | Some sh =>
            (mkMF (mkMH F (d_set str_eqb (h_procs F (f_mh s)) c sh) (h_fs F (f_mh s))) (c :: drop_pid c (f_pending s)), Ok tt)
        end
    | FStep (HCall c now o) =>
        if mem_str c (f_pending s) then
          match d_find str_eqb (h_procs F (f_mh s)) c with
          | None => (s, Ok tt)                                 (* not reachable: a pending pid is in the process table *)
          | Some sh =>
              if touches metas sh o then
                lift (drop_pid c (f_pending s))
                     (mh_step fams metas (mkMH F (h_procs F (f_mh s)) (rebind c sh metas (h_fs F (f_mh s)))) (HCall c now o))
              else lift (f_pending s) (mh_step fams metas (f_mh s) (HCall c now o))
          end
        else lift (f_pending s) (mh_step fams metas (f_mh s) (HCall c now o))
    | FStep st0 => lift (drop_pid (hpid F st0) (f_pending s)) (mh_step fams metas (f_mh s) st0)
    end.

  Definition mf_run (fams : list shape) (metas : list fmeta) (s : mf) (steps : list fstep) : mf :=
    fold_left (fun s st => fst (mf_step fams metas s st)) steps s.

  (* the pid whose process performs the step *)
  Definition fpid (st : fstep) : str := match st with FStep st0 => hpid F st0 | FFork _ c => c end.

  (* ----- the fork-free history that leaves the same directory -----
     the labels() calls that re-create, in a process that has just constructed its metrics, the children a forked
     process inherited *)
  Definition inherit_fam (f : nat) (fam : shape) : list mcall :=
    map (fun kc => CLabels f (Lab (fst kc) [])) (f_children fam).
  Fixpoint inherit_calls (f : nat) (sh : list shape) : list mcall :=
    match sh with
    | [] => []
    | fam :: r => inherit_fam f fam ++ inherit_calls (S f) r
    end.

  (* the steps of MultiHist that stand for one step with forks, in state s: a fork is no step; the first call of a forked
     process that reaches a value object is the START of a process with that pid, labels() for every inherited child,
     then the call; its earlier calls are no steps *)
  Definition defork_step (metas : list fmeta) (s : mf) (st : fstep) : list (hstep F) :=
    match st with
    | FFork _ _ => []
    | FStep (HCall c now o) =>
        if mem_str c (f_pending s) then
          match d_find str_eqb (h_procs F (f_mh s)) c with
          | None => []
          | Some sh =>
              if touches metas sh o
              then HStart c :: map (fun call => HCall c now call) (inherit_calls 0 sh) ++ [HCall c now o]
              else []
          end
        else [HCall c now o]
    | FStep st0 => [st0]
    end.

  Fixpoint defork (fams : list shape) (metas : list fmeta) (s : mf) (steps : list fstep) : list (hstep F) :=
    match steps with
    | [] => []
    | st :: r => defork_step metas s st ++ defork fams metas (fst (mf_step fams metas s st)) r
    end.
End MultiFork.

Arguments FStep {F}. Arguments FFork {F}.
