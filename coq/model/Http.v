(* Model of the HTTP front-ends of prometheus_client (C17):
     exposition.py  choose_encoder, gzip_accepted, _bake_output, make_wsgi_app.prometheus_app,
                    MetricsHandler.do_GET
     asgi.py        make_asgi_app.prometheus_app
   Outside the model (CPython / standard library, answered by CPython itself when the extracted model
   runs): str.lower, urllib.parse.parse_qs, urllib.parse.urlparse(...).query, the utf-8 / latin-1 codecs,
   gzip.compress, the two exposition encoders, wsgiref, http.server.  They appear as Section variables.
   The body of a response is kept symbolic (which encoder, which name[] restriction, gzip or not);
   `body_bytes` gives its meaning relative to an encoder and a compressor. *)
From V Require Import lib.PyBase.
Open Scope N_scope.

(* ---------------------------------------------------------------- characters *)
Definition H_COMMA : char := 44.
Definition H_SEMI : char := 59.
Definition H_SPACE : char := 32.

(* str.strip() without argument: Py_UNICODE_ISSPACE, 29 code points (validated against CPython over
   all 0x110000 code points by the harness on every run) *)
Definition h_isspace (c : char) : bool :=
  ((9 <=? c) && (c <=? 13)) || ((28 <=? c) && (c <=? 32)) || (c =? 133) || (c =? 160)
  || (c =? 5760) || ((8192 <=? c) && (c <=? 8202)) || (c =? 8232) || (c =? 8233)
  || (c =? 8239) || (c =? 8287) || (c =? 12288).

Fixpoint h_lstrip (s : str) : str :=
  match s with
  | [] => []
  | x :: r => if h_isspace x then h_lstrip r else s
  end.
Definition h_strip (s : str) : str := rev (h_lstrip (rev (h_lstrip s))).

(* s.split(c) for a one-character separator: never the empty list *)
Fixpoint h_split (c : char) (s : str) : list str :=
  match s with
  | [] => [[]]
  | x :: r =>
      if x =? c then [] :: h_split c r
      else match h_split c r with
           | h :: t => (x :: h) :: t
           | [] => [[x]]
           end
  end.

(* s.split(c)[0] *)
Definition h_before (c : char) (s : str) : str := hd [] (h_split c s).

(* sep.join(l) for a one-character separator *)
Fixpoint h_join (c : char) (l : list str) : str :=
  match l with
  | [] => []
  | [a] => a
  | a :: r => a ++ c :: h_join c r
  end.

(* `x or ''` for x : Optional[str] *)
Definition h_or_empty (h : option str) : str := match h with Some s => s | None => [] end.

(* ---------------------------------------------------------------- constants *)
Definition H_OM_TYPE : str := Eval compute in s2l "application/openmetrics-text".
Definition H_GZIP : str := Eval compute in s2l "gzip".
Definition H_CT_TEXT : str := Eval compute in s2l "text/plain; version=0.0.4; charset=utf-8".
Definition H_CT_OM : str := Eval compute in s2l "application/openmetrics-text; version=1.0.0; charset=utf-8".
Definition H_CONTENT_TYPE : str := Eval compute in s2l "Content-Type".
Definition H_CONTENT_ENCODING : str := Eval compute in s2l "Content-Encoding".
Definition H_ALLOW : str := Eval compute in s2l "Allow".
Definition H_ALLOW_VALUE : str := Eval compute in s2l "OPTIONS,GET".
Definition H_NAME_KEY : str := Eval compute in s2l "name[]".
Definition H_200 : str := Eval compute in s2l "200 OK".
Definition H_405 : str := Eval compute in s2l "405 Method Not Allowed".
Definition H_OPTIONS : str := Eval compute in s2l "OPTIONS".
Definition H_GET : str := Eval compute in s2l "GET".
Definition H_FAVICON : str := Eval compute in s2l "/favicon.ico".
Definition H_ACCEPT : str := Eval compute in s2l "accept".
Definition H_ACCEPT_ENCODING : str := Eval compute in s2l "accept-encoding".
Definition H_ENV_ACCEPT : str := Eval compute in s2l "HTTP_ACCEPT".
Definition H_ENV_ACCEPT_ENCODING : str := Eval compute in s2l "HTTP_ACCEPT_ENCODING".
Definition H_ENV_QUERY : str := Eval compute in s2l "QUERY_STRING".
Definition H_ENV_METHOD : str := Eval compute in s2l "REQUEST_METHOD".
Definition H_ENV_PATH : str := Eval compute in s2l "PATH_INFO".
Definition H_405_PRE : str := Eval compute in s2l "# HTTP ".
Definition H_405_MID : str := Eval compute in s2l ": ".
Definition H_405_POST : str := Eval compute in (s2l "; use OPTIONS or GET" ++ [10]).

(* ---------------------------------------------------------------- responses *)
Inductive hfmt := HText | HOM.
Definition hfmt_eqb (a b : hfmt) : bool :=
  match a, b with HText, HText | HOM, HOM => true | _, _ => false end.

Definition h_content_type (f : hfmt) : str := match f with HText => H_CT_TEXT | HOM => H_CT_OM end.

(* HB_expo f names gz: encoder f applied to the registry restricted to `names` (None: the registry
   itself), gzip-compressed when gz *)
Inductive hbody :=
  | HB_empty
  | HB_lit (s : str)
  | HB_expo (f : hfmt) (names : option (list str)) (gz : bool).

Record hresp := { h_status : str; h_headers : list (str * str); h_body : hbody }.

(* does producing the body call the encoder, hence collect() *)
Definition h_collects (r : hresp) : bool :=
  match h_body r with HB_expo _ _ _ => true | _ => false end.

(* int(status.split(' ')[0]) *)
Definition h_status_code (s : str) : N := digits_val 0 (h_before H_SPACE s).

(* first header with that exact name, as a client reads the response *)
Definition h_header (r : hresp) (name : str) : option str := d_find str_eqb (h_headers r) name.

Definition hparams := assoc str (list str).     (* result of parse_qs: dict str -> list of str *)

(* ---------------------------------------------------------------- the shared routine *)

(* choose_encoder: (encoder, content type).  Exact, case-sensitive comparison. *)
Definition h_om_listed (accept : option str) : bool :=
  existsb (fun e => str_eqb (h_strip (h_before H_SEMI e)) H_OM_TYPE) (h_split H_COMMA (h_or_empty accept)).

Definition h_choose_encoder (accept : option str) : hfmt * str :=
  if h_om_listed accept then (HOM, H_CT_OM) else (HText, H_CT_TEXT).

(* the two messages the ASGI app sends *)
Inductive hasgi_msg :=
  | HA_start (status : N) (headers : list (str * str))
  | HA_body (b : hbody).

(* what MetricsHandler writes: send_response(code), send_header*, body *)
Record hhandler_out := { hh_code : N; hh_headers : list (str * str); hh_body : hbody }.

Section WithBuiltins.
  Variable lower : str -> str.                 (* str.lower *)
  Variable parse_qs : str -> hparams.          (* urllib.parse.parse_qs on a str *)
  Variable urlquery : str -> str.              (* urllib.parse.urlparse(path).query *)

  Definition h_gzip_accepted (aenc : option str) : bool :=
    existsb (fun e => str_eqb (lower (h_strip (h_before H_SEMI e))) H_GZIP) (h_split H_COMMA (h_or_empty aenc)).

  (* _bake_output(registry, accept_header, accept_encoding_header, params, disable_compression) *)
  Definition h_bake_output (accept aenc : option str) (params : hparams) (disable : bool) : hresp :=
    let '(enc, ct) := h_choose_encoder accept in
    let names := d_find str_eqb params H_NAME_KEY in
    let headers := [(H_CONTENT_TYPE, ct)] in
    if negb disable && h_gzip_accepted aenc
    then {| h_status := H_200; h_headers := headers ++ [(H_CONTENT_ENCODING, H_GZIP)];
            h_body := HB_expo enc names true |}
    else {| h_status := H_200; h_headers := headers; h_body := HB_expo enc names false |}.

  (* ---- WSGI: make_wsgi_app(registry, disable_compression).prometheus_app(environ, start_response).
     Only the five string-valued keys the code reads are represented. *)
  Definition h_wsgi_app (disable : bool) (environ : assoc str str) : res hresp :=
    let accept := d_find str_eqb environ H_ENV_ACCEPT in
    let aenc := d_find str_eqb environ H_ENV_ACCEPT_ENCODING in
    let params := parse_qs (h_or_empty (d_find str_eqb environ H_ENV_QUERY)) in
    do method <- d_get str_eqb environ H_ENV_METHOD;
    if str_eqb method H_OPTIONS then
      Ok {| h_status := H_200; h_headers := [(H_ALLOW, H_ALLOW_VALUE)]; h_body := HB_empty |}
    else if negb (str_eqb method H_GET) then
      Ok {| h_status := H_405; h_headers := [(H_ALLOW, H_ALLOW_VALUE)];
            h_body := HB_lit (H_405_PRE ++ H_405 ++ H_405_MID ++ method ++ H_405_POST) |}
    else
      do path <- d_get str_eqb environ H_ENV_PATH;
      if str_eqb path H_FAVICON then
        Ok {| h_status := H_200; h_headers := [([], [])]; h_body := HB_empty |}
      else Ok (h_bake_output accept aenc params disable).

  (* ---- ASGI: make_asgi_app(...).prometheus_app(scope, receive, send).
     `headers` are the (name, value) pairs of scope['headers'] after .decode('utf8');
     `query` is scope.get('query_string', b'') after .decode('utf8') (None when the key is absent). *)
  Definition h_asgi_header (headers : list (str * str)) (name : str) : str :=
    h_join H_COMMA (map snd (filter (fun nv => str_eqb (lower (fst nv)) name) headers)).

  Definition h_asgi_core (params : hparams) (disable : bool) (headers : list (str * str))
             (payload_is_request : bool) : list hasgi_msg :=
    let accept := h_asgi_header headers H_ACCEPT in
    let aenc := h_asgi_header headers H_ACCEPT_ENCODING in
    let r := h_bake_output (Some accept) (Some aenc) params disable in
    if payload_is_request
    then [HA_start (h_status_code (h_status r)) (h_headers r); HA_body (h_body r)]
    else [].

  (* repaired source: parse_qs(scope.get('query_string', b'').decode('utf8')) *)
  Definition h_asgi_app (disable : bool) (headers : list (str * str)) (query : option str)
             (payload_is_request : bool) : list hasgi_msg :=
    h_asgi_core (parse_qs (h_or_empty query)) disable headers payload_is_request.

  (* pinned source: parse_qs(<bytes>) returns a dict with *bytes* keys, and `'name[]' in params`
     (a str key) is then never true: every look-up misses, i.e. the dict behaves as the empty one *)
  Definition h_asgi_app_orig (disable : bool) (headers : list (str * str)) (query : option str)
             (payload_is_request : bool) : list hasgi_msg :=
    h_asgi_core [] disable headers payload_is_request.

  (* ---- MetricsHandler.do_GET.  `accepts` / `aencs` are self.headers.get_all(name) (all field lines
     of that name in order, [] when absent; produced by http.server + email.parser, trusted);
     compression can not be switched off in this front-end. *)
  Definition h_handler_core (accept aenc : option str) (path : str) : hhandler_out :=
    let params := parse_qs (urlquery path) in
    let r := h_bake_output accept aenc params false in
    {| hh_code := h_status_code (h_status r); hh_headers := h_headers r; hh_body := h_body r |}.

  (* repaired source: ','.join(self.headers.get_all('Accept', [])) -- the field lines joined, as
     wsgiref and the ASGI app do *)
  Definition h_handler_get (accepts aencs : list str) (path : str) : hhandler_out :=
    h_handler_core (Some (h_join H_COMMA accepts)) (Some (h_join H_COMMA aencs)) path.

  (* pinned source: self.headers.get('Accept') is the FIRST field line only *)
  Definition h_handler_get_orig (accepts aencs : list str) (path : str) : hhandler_out :=
    h_handler_core (hd_error accepts) (hd_error aencs) path.

  (* ---- what a client observes: status code, Content-Type, Content-Encoding, body *)
  Definition hobs := (N * option str * option str * hbody)%type.
  Definition h_obs_of (code : N) (headers : list (str * str)) (b : hbody) : hobs :=
    (code, d_find str_eqb headers H_CONTENT_TYPE, d_find str_eqb headers H_CONTENT_ENCODING, b).

  Definition h_obs_wsgi (r : res hresp) : option hobs :=
    match r with
    | Ok r => Some (h_obs_of (h_status_code (h_status r)) (h_headers r) (h_body r))
    | Err _ => None
    end.
  Definition h_obs_asgi (ms : list hasgi_msg) : option hobs :=
    match ms with
    | [HA_start code hs; HA_body b] => Some (h_obs_of code hs b)
    | _ => None
    end.
  Definition h_obs_handler (o : hhandler_out) : option hobs :=
    Some (h_obs_of (hh_code o) (hh_headers o) (hh_body o)).
End WithBuiltins.

(* ---------------------------------------------------------------- meaning of a symbolic body *)
Section BodyBytes.
  Variable encode : hfmt -> option (list str) -> list N.     (* encoder(restricted registry) *)
  Variable gzip : list N -> list N.                          (* gzip.compress *)
  Definition h_body_bytes (b : hbody) : list N :=
    match b with
    | HB_empty => []
    | HB_lit s => s                 (* ASCII here: .encode() is the identity on code points < 128 *)
    | HB_expo f names gz => if gz then gzip (encode f names) else encode f names
    end.
End BodyBytes.

(* declarative side of the token theorems: ASCII case-insensitive equality with "gzip" *)
Definition h_ci_gzip (s : str) : bool :=
  match s with
  | [a; b; c; d] =>
      ((a =? 103) || (a =? 71)) && ((b =? 122) || (b =? 90))
      && ((c =? 105) || (c =? 73)) && ((d =? 112) || (d =? 80))
  | _ => false
  end.
