(* Model of prometheus_client/openmetrics/parser.py (strict OpenMetrics parser), in the res monad:
   every Python operation that can raise does so here too, in Python's evaluation order.
   Shared helpers (_next_unquoted_char, _split_quoted, _unquote_unescape, parse_labels) come from
   model/TextParser.v.  CPython's int()/float(), number comparison and the `re` character classes
   \w \s \d are Section variables (answered by CPython itself in the correspondence run).

   Repair flags (true = repaired source, see fixes/C14-*.diff; false = pinned source):
     guard_fix   _unquote_unescape on a whitespace-only token        (IndexError  -> ('', False))
     fix_nhkeys  _parse_nh_struct: a required field is missing        (KeyError    -> ValueError)
     fix_nhsfx   native-histogram sample names: (1) they may not end in _total/_gcount/_gsum either, and the suffix test
                 also applies to a quoted name taken from the braces
                 (AttributeError / TypeError on the None value -> ValueError)        (fixes/C14-om-nh-value-suffixes.diff)
                 (2) om_enter_family: only a native sample named like the histogram family in progress skips the
                 family switch, one of a foreign name is rejected (the pinned source attaches a native sample to the
                 family in progress whatever its name: interleaved families and late metadata were accepted)
                                                                              (fixes/C15-om-native-foreign-name.diff)
     fix_tsmix   Timestamp vs float inside one group                  (AttributeError -> compared as floats)
     fix_isnan   math.isnan(<huge int>)                               (OverflowError -> NaN test by v != v)
     fix_unit    the UNIT text goes through _unescape_help (commit ef28dd7; false = raw parts[3])
     fix_quote   the quote toggle of _parse_remaining_text honours backslash escapes (commit f7ac0de)
     fix_tsexp   _parse_timestamp: sec.nsec only when the WHOLE fraction is an int (1.123456789e5 is a float,
                 the pinned source reads it as 1 s + 123456789 ns), and -0.5 stays the float -0.5 (the pinned
                 source returns Timestamp(0, 500000000) = +0.5)                (fixes/C04-om-timestamp-exponent.diff)
     fix_sname   sample names are recorded consistently:
                 (1) _parse_sample: a non-empty name in front of the braces must be a legacy name (the pinned source
                 records ' a' verbatim, which cannot be exposed and parsed again)   (fixes/C04-om-sample-name.diff)
                 (2) the implicit unknown family a sample starts takes the sample's name as it is (om_implicit_name;
                 the pinned source applies _unquote_unescape to the already unquoted name AGAIN: the quoted sample
                 name ' a' gives family a holding sample ' a', whose exposition is rejected with a name clash, and
                 the quoted name a.b without metadata is rejected, no second unquoting having taken place)
                                                                            (fixes/C04-om-implicit-family-name.diff)
   Repaired without a flag: the duplicate set of a group is emptied when the group's timestamp changes
   (fixes/C15-om-later-exposure.diff); om_group_step is the repaired step, om_group_step_orig the pinned one.  *)
From V Require Import lib.PyBase lib.PyStr model.Validation model.Expo model.TextParser.
Open Scope N_scope.

Definition OM_DOT : char := 46.
Definition OM_ZERO : char := 48.
Definition OM_LBRACK : char := 91.
Definition OM_RBRACK : char := 93.
Definition OM_MINUS : char := 45.

Definition OM_EOF := Eval compute in s2l "# EOF".
Definition OM_HELP := Eval compute in s2l "HELP".
Definition OM_TYPE := Eval compute in s2l "TYPE".
Definition OM_UNIT := Eval compute in s2l "UNIT".
Definition OM_untyped := Eval compute in s2l "untyped".
Definition OM_unknown := Eval compute in s2l "unknown".
Definition OM_counter := Eval compute in s2l "counter".
Definition OM_gauge := Eval compute in s2l "gauge".
Definition OM_summary := Eval compute in s2l "summary".
Definition OM_histogram := Eval compute in s2l "histogram".
Definition OM_gaugehistogram := Eval compute in s2l "gaugehistogram".
Definition OM_info := Eval compute in s2l "info".
Definition OM_stateset := Eval compute in s2l "stateset".
Definition OM_total := Eval compute in s2l "_total".
Definition OM_created := Eval compute in s2l "_created".
Definition OM_count := Eval compute in s2l "_count".
Definition OM_sum := Eval compute in s2l "_sum".
Definition OM_bucket := Eval compute in s2l "_bucket".
Definition OM_gcount := Eval compute in s2l "_gcount".
Definition OM_gsum := Eval compute in s2l "_gsum".
Definition OM_infosfx := Eval compute in s2l "_info".
Definition OM_le := Eval compute in s2l "le".
Definition OM_quantile := Eval compute in s2l "quantile".
Definition OM_NaN := Eval compute in s2l "NaN".
Definition OM_pInf := Eval compute in s2l "+Inf".
Definition OM_name_key := Eval compute in s2l "__name__".
Definition OM_exsep := Eval compute in s2l " # ".
Definition OM_k_count := Eval compute in s2l "count".
Definition OM_k_sum := Eval compute in s2l "sum".
Definition OM_k_schema := Eval compute in s2l "schema".
Definition OM_k_zt := Eval compute in s2l "zero_threshold".
Definition OM_k_zc := Eval compute in s2l "zero_count".
Definition OM_pos_spans := Eval compute in s2l "positive_spans".
Definition OM_neg_spans := Eval compute in s2l "negative_spans".
Definition OM_pos_deltas := Eval compute in s2l "positive_deltas".
Definition OM_neg_deltas := Eval compute in s2l "negative_deltas".

Definition OM_METRIC_TYPES : list str :=
  [OM_counter; OM_gauge; OM_summary; OM_histogram; OM_gaugehistogram; OM_unknown; OM_info; OM_stateset].

(* type_suffixes.get(typ, dflt) *)
Definition om_type_suffixes (typ : str) (dflt : list str) : list str :=
  if str_eqb typ OM_counter then [OM_total; OM_created]
  else if str_eqb typ OM_summary then [[]; OM_count; OM_sum; OM_created]
  else if str_eqb typ OM_histogram then [OM_count; OM_sum; OM_bucket; OM_created]
  else if str_eqb typ OM_gaugehistogram then [OM_gcount; OM_gsum; OM_bucket]
  else if str_eqb typ OM_info then [OM_infosfx]
  else dflt.

(* _unescape_help *)
Fixpoint om_unescape_help_aux (slash : bool) (s : str) : str :=
  match s with
  | [] => if slash then [BS] else []
  | c :: r =>
      if slash then
        (if c =? BS then [BS] else if c =? DQ then [DQ] else if c =? CH_n then [LF] else [BS; c])
          ++ om_unescape_help_aux false r
      else if c =? BS then om_unescape_help_aux true r
      else c :: om_unescape_help_aux false r
  end.
Definition om_unescape_help (s : str) : str := om_unescape_help_aux false s.

(* s.split(c, 1) *)
Fixpoint om_split_first (c : char) (s : str) : str * option str :=
  match s with
  | [] => ([], None)
  | x :: r => if x =? c then ([], Some r)
              else let '(a, b) := om_split_first c r in (x :: a, b)
  end.

(* _last_unquoted_char: scan from the end down to index 1; escapedness of a quote = parity of the
   backslash run in front of it, computed left to right *)
Fixpoint om_annot (l : str) (par : bool) : list (char * bool) :=
  match l with
  | [] => []
  | c :: r => (c, par) :: om_annot r (if c =? BS then negb par else false)
  end.
Fixpoint om_luq (chs : list char) (l : list (char * bool)) (i : Z) (inq : bool) : Z :=
  match l with
  | [] => (-1)%Z
  | (c, esc) :: r =>
      if (i <=? 0)%Z then (-1)%Z else
      let inq' := if (c =? DQ) && negb esc then negb inq else inq in
      if negb inq' && mem_char c chs then i else om_luq chs r (i - 1)%Z inq'
  end.
Definition om_last_unquoted_char (text : str) (chs : list char) : Z :=
  om_luq chs (rev (om_annot text false)) (zlen text - 1)%Z false.

Definition om_ljust9 (s : str) : str := s ++ repeat OM_ZERO (9 - length s).

Definition om_str_pair_eqb (a b : str * str) : bool := str_eqb (fst a) (fst b) && str_eqb (snd a) (snd b).
Fixpoint om_kvs_eqb (a b : list (str * str)) : bool :=
  match a, b with
  | [], [] => true
  | x :: a', y :: b' => om_str_pair_eqb x y && om_kvs_eqb a' b'
  | _, _ => false
  end.
Fixpoint om_mem_kvs (g : list (str * str)) (l : list (list (str * str))) : bool :=
  match l with [] => false | x :: r => om_kvs_eqb g x || om_mem_kvs g r end.
Definition om_sid_eqb (a b : str * list (str * str)) : bool := str_eqb (fst a) (fst b) && om_kvs_eqb (snd a) (snd b).
Fixpoint om_mem_sid (g : str * list (str * str)) (l : list (str * list (str * str))) : bool :=
  match l with [] => false | x :: r => om_sid_eqb g x || om_mem_sid g r end.

Section OMParser.
  Variable legacy : bool.                   (* PROMETHEUS_LEGACY_NAME_VALIDATION *)
  Variable guard_fix : bool.
  Variable fix_nhkeys fix_nhsfx fix_tsmix fix_isnan : bool.
  Variable fix_unit fix_quote : bool.
  Variable fix_tsexp fix_sname : bool.
  Variable NUM : Type.                      (* a parsed number: Python int or float *)
  Variable parse_num : str -> option NUM.   (* try int(s) except ValueError: float(s); None = ValueError *)
  Variable parse_float : str -> option NUM. (* float(s) *)
  Variable parse_int : str -> option Z.     (* int(s) *)
  Variable num_lt : NUM -> NUM -> bool.     (* a < b *)
  Variable num_eqb : NUM -> NUM -> bool.    (* a == b *)
  Variable num_isinf : NUM -> bool.         (* math.isinf, applied to floats only *)
  Variable num_integral : NUM -> bool.      (* isinstance(v, int) or v.is_integer() *)
  Variable num_huge : NUM -> bool.          (* an int too large for float(): math.isnan raises OverflowError *)
  Variable num_zero num_one num_inf : NUM.  (* 0, 1, float('+Inf') *)
  Variable ts_float : Z -> Z -> option NUM. (* float(Timestamp(sec, nsec)); None = OverflowError *)
  Variable is_word is_space_re is_digit_re : char -> bool.   (* re classes \w \s \d *)

  Definition om_num_nan (v : NUM) : bool := negb (num_eqb v v).
  Definition om_num_le (a b : NUM) : bool := num_lt a b || num_eqb a b.

  (* samples.Timestamp(sec, nsec) / float *)
  Inductive om_tsv := OTs (sec nsec : Z) | OTf (x : NUM).

  Definition om_mk_timestamp (sec nsec : Z) : res om_tsv :=
    if (nsec <? 0)%Z || (1000000000 <=? nsec)%Z then Err ValueError
    else Ok (OTs sec (if (sec <? 0)%Z then (- nsec)%Z else nsec)).

  (* _parse_timestamp *)
  Definition om_parse_timestamp (t : str) : res (option om_tsv) :=
    match t with
    | [] => Ok None
    | _ =>
      if negb (str_eqb t (strip t)) || mem_char USCORE t then Err ValueError else
      match parse_int t with
      | Some z => do ts <- om_mk_timestamp z 0; Ok (Some ts)
      | None =>
          let float_branch :=
            match parse_float t with
            | None => Err ValueError
            | Some x => if om_num_nan x || num_isinf x then Err ValueError else Ok (Some (OTf x))
            end in
          let '(p0, p1o) := om_split_first OM_DOT t in
          match parse_int p0 with
          | None => float_branch
          | Some sec =>
              match p1o with
              | None => Err IndexError
              | Some p1 =>
                  if fix_tsexp && (match parse_int p1 with None => true | Some _ => false end) then float_branch else
                  if fix_tsexp && (sec =? 0)%Z && (match p0 with c :: _ => c =? OM_MINUS | [] => false end)
                  then float_branch else
                  match parse_int (om_ljust9 (firstn 9 p1)) with
                  | None => float_branch
                  | Some ns => match om_mk_timestamp sec ns with
                               | Ok ts => Ok (Some ts)
                               | Err _ => float_branch
                               end
                  end
              end
          end
      end
    end.

  (* ts equality (==): Timestamp.__eq__ is class-sensitive *)
  Definition om_ts_eqb (a b : option om_tsv) : bool :=
    match a, b with
    | None, None => true
    | Some (OTs s1 n1), Some (OTs s2 n2) => (s1 =? s2)%Z && (n1 =? n2)%Z
    | Some (OTf x), Some (OTf y) => num_eqb x y
    | _, _ => false
    end.

  (* a > b on timestamps; both present *)
  Definition om_ts_gt (a b : om_tsv) : res bool :=
    match a, b with
    | OTs s1 n1, OTs s2 n2 => Ok (if (s1 =? s2)%Z then (n2 <? n1)%Z else (s2 <? s1)%Z)
    | OTf x, OTf y => Ok (num_lt y x)
    | OTs s1 n1, OTf y =>
        if fix_tsmix then match ts_float s1 n1 with Some x => Ok (num_lt y x) | None => Err ValueError end
        else Err AttributeError
    | OTf x, OTs s2 n2 =>
        if fix_tsmix then match ts_float s2 n2 with Some y => Ok (num_lt y x) | None => Err ValueError end
        else Err AttributeError
    end.

  (* _parse_value *)
  Definition om_parse_value (v : str) : res NUM :=
    if negb (str_eqb v (strip v)) || mem_char USCORE v then Err ValueError
    else match parse_num v with Some x => Ok x | None => Err ValueError end.

  Record om_exemplar := { oe_labels : assoc str str; oe_value : NUM; oe_ts : option om_tsv }.

  (* ---- _parse_remaining_text: the character state machine ---- *)
  Inductive om_rstate := RTs | RExHash | RExSpace | RExStart | RExParsed | RExValSp | RExVal | RExTs.
  Record om_rt := { rt_state : om_rstate; rt_inq : bool; rt_esc : bool; rt_ts : str; rt_exv : str; rt_exts : str;
                    rt_exl : option (assoc str str) }.
  (* the three accumulators are kept reversed *)

  Definition om_rt_set_state (r : om_rt) (s : om_rstate) : om_rt :=
    {| rt_state := s; rt_inq := rt_inq r; rt_esc := rt_esc r; rt_ts := rt_ts r; rt_exv := rt_exv r; rt_exts := rt_exts r;
       rt_exl := rt_exl r |}.

  Definition om_rt_step (text : str) (r0 : om_rt) (c : char) : res om_rt :=
    let inq := if (c =? DQ) && negb (fix_quote && rt_esc r0) then negb (rt_inq r0) else rt_inq r0 in
    let esc := (c =? BS) && negb (rt_esc r0) in
    let r := {| rt_state := rt_state r0; rt_inq := inq; rt_esc := esc; rt_ts := rt_ts r0; rt_exv := rt_exv r0;
                rt_exts := rt_exts r0; rt_exl := rt_exl r0 |} in
    if inq then Ok r else
    match rt_state r with
    | RTs =>
        if (c =? HASH) && (match rt_ts r with [] => true | _ => false end) then Ok (om_rt_set_state r RExSpace)
        else if c =? SP then Ok (om_rt_set_state r RExHash)
        else Ok {| rt_state := RTs; rt_inq := inq; rt_esc := esc; rt_ts := c :: rt_ts r; rt_exv := rt_exv r;
                   rt_exts := rt_exts r; rt_exl := rt_exl r |}
    | RExHash => if c =? HASH then Ok (om_rt_set_state r RExSpace) else Err ValueError
    | RExSpace => if c =? SP then Ok (om_rt_set_state r RExStart) else Err ValueError
    | RExStart =>
        if c =? LBRACE then
          let ls := next_unquoted_char text [LBRACE] 0 in
          let le := om_last_unquoted_char text [RBRACE] in
          do labels <- parse_labels legacy guard_fix (slice text (ls + 1)%Z le) true;
          Ok {| rt_state := RExParsed; rt_inq := inq; rt_esc := esc; rt_ts := rt_ts r; rt_exv := rt_exv r;
                rt_exts := rt_exts r; rt_exl := Some labels |}
        else Err ValueError
    | RExParsed => if c =? RBRACE then Ok (om_rt_set_state r RExValSp) else Ok r
    | RExValSp => if c =? SP then Ok (om_rt_set_state r RExVal) else Err ValueError
    | RExVal =>
        if c =? SP then
          match rt_exv r with
          | [] => Err ValueError
          | _ => Ok (om_rt_set_state r RExTs)
          end
        else Ok {| rt_state := RExVal; rt_inq := inq; rt_esc := esc; rt_ts := rt_ts r; rt_exv := c :: rt_exv r;
                   rt_exts := rt_exts r; rt_exl := rt_exl r |}
    | RExTs => Ok {| rt_state := RExTs; rt_inq := inq; rt_esc := esc; rt_ts := rt_ts r; rt_exv := rt_exv r;
                     rt_exts := c :: rt_exts r; rt_exl := rt_exl r |}
    end.

  Fixpoint om_rt_run (text : str) (r : om_rt) (l : str) : res om_rt :=
    match l with
    | [] => Ok r
    | c :: l' => do r' <- om_rt_step text r c; om_rt_run text r' l'
    end.

  Definition om_rt_init : om_rt :=
    {| rt_state := RTs; rt_inq := false; rt_esc := false; rt_ts := []; rt_exv := []; rt_exts := []; rt_exl := None |}.

  Fixpoint om_sum_len (l : assoc str str) : nat :=
    match l with [] => O | (k, v) :: r => (length k + length v + om_sum_len r)%nat end.

  Definition om_parse_remaining_text (text0 : str) : res (NUM * option om_tsv * option om_exemplar) :=
    let '(v0, rest) := om_split_first SP text0 in
    do val <- om_parse_value v0;
    match rest with
    | None => Ok (val, None, None)
    | Some text =>
        do r <- om_rt_run text om_rt_init text;
        let st := rt_state r in
        if (match st, rt_ts r with RTs, [] => true | _, _ => false end) then Err ValueError else
        if (match st, rt_exts r with RExTs, [] => true | _, _ => false end) then Err ValueError else
        if (match st with RExHash | RExSpace | RExStart | RExParsed => true | _ => false end)
        then Err ValueError else
        do ts <- om_parse_timestamp (rev (rt_ts r));
        match rt_exl r with
        | None => Ok (val, ts, None)
        | Some el =>
            if Nat.ltb 128 (om_sum_len el) then Err ValueError else
            do ev <- om_parse_value (rev (rt_exv r));
            do ets <- om_parse_timestamp (rev (rt_exts r));
            Ok (val, ts, Some {| oe_labels := el; oe_value := ev; oe_ts := ets |})
        end
    end.

  (* ---- native histograms ---- *)
  Record om_nh := { nh_count : Z; nh_sum : Z; nh_schema : Z; nh_zt : NUM; nh_zc : Z;
                    nh_pos_spans : option (list (Z * Z)); nh_neg_spans : option (list (Z * Z));
                    nh_pos_deltas : option (list Z); nh_neg_deltas : option (list Z) }.

  Record om_sample := { os_name : str; os_labels : option (assoc str str); os_value : option NUM;
                        os_ts : option om_tsv; os_ex : option om_exemplar; os_nh : option om_nh }.

  (* maximal prefix satisfying p *)
  Fixpoint om_span (p : char -> bool) (s : str) : str * str :=
    match s with
    | [] => ([], [])
    | c :: r => if p c then let '(a, b) := om_span p r in (c :: a, b) else ([], s)
    end.

  Definition om_not_comma_brace (c : char) : bool := negb ((c =? COMMA) || (c =? RBRACE)).

  (* one attempt of the items pattern  word+ colon space* [not , or }]+  at the head of s:
     Some (key, value, rest after the match) *)
  Definition om_items_at (s : str) : option (str * str * str) :=
    let '(w, r1) := om_span is_word s in
    match w, r1 with
    | _ :: _, c :: r2 =>
        if c =? COLON then
          let '(sp, r3) := om_span is_space_re r2 in
          let '(v, r4) := om_span om_not_comma_brace r3 in
          match v with
          | _ :: _ => Some (w, v, r4)
          | [] =>
              (* backtrack: give one space back; it is not ',' or '}' unless the class says so *)
              match rev sp with
              | lastsp :: _ => if om_not_comma_brace lastsp then Some (w, [lastsp], r3) else None
              | [] => None
              end
          end
        else None
    | _, _ => None
    end.

  (* re.findall: leftmost matches, resuming after each match *)
  Fixpoint om_findall_fuel {A} (fuel : nat) (at_ : str -> option (A * str)) (s : str) : res (list A) :=
    match fuel with
    | O => Err OutOfFuel
    | S f =>
        match s with
        | [] => Ok []
        | _ :: r =>
            match at_ s with
            | Some (a, rest) =>
                (* every pattern here consumes at least one character *)
                let rest' := if Nat.ltb (length rest) (length s) then rest else r in
                do l <- om_findall_fuel f at_ rest'; Ok (a :: l)
            | None => om_findall_fuel f at_ r
            end
        end
    end.
  Definition om_findall {A} (at_ : str -> option (A * str)) (s : str) : res (list A) :=
    om_findall_fuel (S (length s)) at_ s.

  Definition om_strip_prefix (p s : str) : option str :=
    if starts_with p s then Some (skipn (length p) s) else None.

  (* \d+ *)
  Definition om_digits1 (s : str) : option (str * str) :=
    let '(d, r) := om_span is_digit_re s in
    match d with [] => None | _ => Some (d, r) end.

  (* \d+:\d+  ->  (text, rest) *)
  Definition om_span_pair (s : str) : option (str * str) :=
    match om_digits1 s with
    | Some (a, c :: r) =>
        if c =? COLON then
          match om_digits1 r with
          | Some (b, r') => Some (a ++ [COLON] ++ b, r')
          | None => None
          end
        else None
    | _ => None
    end.

  (* greedy repetition of  ,digits:digits  *)
  Fixpoint om_span_more (fuel : nat) (s : str) : str * str :=
    match fuel with
    | O => ([], s)
    | S f =>
        match s with
        | c :: r =>
            if c =? COMMA then
              match om_span_pair r with
              | Some (p, r') => let '(m, r'') := om_span_more f r' in (COMMA :: p ++ m, r'')
              | None => ([], s)
              end
            else ([], s)
        | [] => ([], s)
        end
    end.

  (* re_spans: key, colon, bracketed non-empty comma list of digits:digits  -> (key, group 2) *)
  Definition om_spans_at (s : str) : option ((str * str) * str) :=
    let try_key (k : str) :=
      match om_strip_prefix (k ++ [COLON; OM_LBRACK]) s with
      | Some r =>
          match om_span_pair r with
          | Some (p, r1) =>
              let '(m, r2) := om_span_more (length r1) r1 in
              match r2 with
              | c :: r3 => if c =? OM_RBRACK then Some ((k, p ++ m), r3) else None
              | [] => None
              end
          | None => None
          end
      | None => None
      end in
    match try_key OM_pos_spans with
    | Some x => Some x
    | None => try_key OM_neg_spans
    end.

  (* -?\d+ *)
  Definition om_sdigits (s : str) : option (str * str) :=
    match s with
    | c :: r => if c =? OM_MINUS then
                  match om_digits1 r with Some (d, r') => Some (c :: d, r') | None => None end
                else om_digits1 s
    | [] => None
    end.
  Fixpoint om_deltas_more (fuel : nat) (s : str) : str * str :=
    match fuel with
    | O => ([], s)
    | S f =>
        match s with
        | c :: r =>
            if c =? COMMA then
              match om_sdigits r with
              | Some (p, r') => let '(m, r'') := om_deltas_more f r' in (COMMA :: p ++ m, r'')
              | None => ([], s)
              end
            else ([], s)
        | [] => ([], s)
        end
    end.
  Definition om_deltas_at (s : str) : option ((str * str) * str) :=
    let try_key (k : str) :=
      match om_strip_prefix (k ++ [COLON; OM_LBRACK]) s with
      | Some r =>
          match om_sdigits r with
          | Some (p, r1) =>
              let '(m, r2) := om_deltas_more (length r1) r1 in
              match r2 with
              | c :: r3 => if c =? OM_RBRACK then Some ((k, p ++ m), r3) else None
              | [] => None
              end
          | None => None
          end
      | None => None
      end in
    match try_key OM_pos_deltas with
    | Some x => Some x
    | None => try_key OM_neg_deltas
    end.

  Fixpoint om_dict_of (l : list (str * str)) (d : assoc str str) : assoc str str :=
    match l with [] => d | (k, v) :: r => om_dict_of r (d_set str_eqb d k v) end.

  Fixpoint om_map_res {A B} (f : A -> res B) (l : list A) : res (list B) :=
    match l with
    | [] => Ok []
    | x :: r => do y <- f x; do ys <- om_map_res f r; Ok (y :: ys)
    end.

  Definition om_int (s : str) : res Z :=
    match parse_int s with Some z => Ok z | None => Err ValueError end.

  (* tuple(map(int, pair.split(':'))) for one pair, then `for start, end in ...` needs exactly two *)
  Definition om_span_value (v : str) : res (list (list Z)) :=
    om_map_res (fun pair => om_map_res om_int (split_char COLON pair)) (split_char COMMA v).

  (* _compose_spans: every match is converted before the wanted name is looked up *)
  Definition om_compose_spans (matches : list (str * str)) (name : str) : res (option (list (Z * Z))) :=
    do vals <- om_map_res (fun m => do v <- om_span_value (snd m); Ok (fst m, v)) matches;
    let d := fold_left (fun (d : assoc str (list (list Z))) kv => d_set str_eqb d (fst kv) (snd kv)) vals [] in
    match d_find str_eqb d name with
    | None => Ok None
    | Some l =>
        do out <- om_map_res (fun t => match t with [a; b] => Ok (a, b) | _ => Err ValueError end) l;
        Ok (Some out)
    end.

  (* _compose_deltas *)
  Definition om_compose_deltas (deltas : assoc str str) (name : str) : res (option (list Z)) :=
    match d_find str_eqb deltas name with
    | None => Ok None
    | Some out =>
        match strip out with
        | [] => Err UnboundLocalError
        | _ => do l <- om_map_res (fun x => om_int (strip x)) (split_char COMMA out); Ok (Some l)
        end
    end.

  Definition om_item (items : assoc str str) (k : str) : res str :=
    match d_find str_eqb items k with
    | Some v => Ok v
    | None => if fix_nhkeys then Err ValueError else Err KeyError
    end.

  (* _parse_nh_struct *)
  Definition om_parse_nh_struct (text : str) : res om_nh :=
    do items_l <- om_findall (fun s => match om_items_at s with
                                       | Some (k, v, r) => Some ((k, v), r) | None => None end) text;
    do span_matches <- om_findall om_spans_at text;
    do deltas_l <- om_findall om_deltas_at text;
    let items := om_dict_of items_l [] in
    let deltas := om_dict_of deltas_l [] in
    do _ <- (if fix_nhkeys then
               if forallb (d_mem str_eqb items) [OM_k_count; OM_k_sum; OM_k_schema; OM_k_zt; OM_k_zc]
               then Ok tt else Err ValueError
             else Ok tt);
    do cs <- om_item items OM_k_count; do count <- om_int cs;
    do ss <- om_item items OM_k_sum; do sum <- om_int ss;
    do sc <- om_item items OM_k_schema; do schema <- om_int sc;
    do zs <- om_item items OM_k_zt;
    do zt <- (match parse_float zs with Some x => Ok x | None => Err ValueError end);
    do zcs <- om_item items OM_k_zc; do zc <- om_int zcs;
    do ps <- om_compose_spans span_matches OM_pos_spans;
    do ns <- om_compose_spans span_matches OM_neg_spans;
    do pd <- om_compose_deltas deltas OM_pos_deltas;
    do nd <- om_compose_deltas deltas OM_neg_deltas;
    Ok {| nh_count := count; nh_sum := sum; nh_schema := schema; nh_zt := zt; nh_zc := zc;
          nh_pos_spans := ps; nh_neg_spans := ns; nh_pos_deltas := pd; nh_neg_deltas := nd |}.

  Definition om_nh_suffixes : list str :=
    [OM_count; OM_sum; OM_bucket; OM_created] ++ (if fix_nhsfx then [OM_total; OM_gcount; OM_gsum] else []).

  Definition om_ends_with_any (sfx : list str) (s : str) : bool := existsb (fun x => ends_with x s) sfx.

  (* _parse_nh_sample: None = not a native histogram line *)
  Definition om_parse_nh_sample (text : str) : res (option om_sample) :=
    let labels_start := next_unquoted_char text [LBRACE] 0 in
    let i0 := next_unquoted_char text [SP; LBRACE] 0 in
    if (i0 =? -1)%Z then Ok None else
    do ci <- index text i0;
    let has_labels := ci =? LBRACE in
    let labels_end := if has_labels then next_unquoted_char text [RBRACE] i0 else (-1)%Z in
    if has_labels && (labels_end =? -1)%Z then Err ValueError else
    let i := if has_labels then labels_end else i0 in
    let nh_start := next_unquoted_char text [LBRACE] (i + 1)%Z in
    if (nh_start =? -1)%Z then Ok None else
    let ex := next_unquoted_char text [HASH] (i + 1)%Z in
    if negb (ex =? -1)%Z && (ex <? nh_start)%Z then Ok None else
    let nh_end := next_unquoted_char text [RBRACE] nh_start in
    if (nh_end =? -1)%Z then Err ValueError else
    if has_labels then
      do labels <- parse_labels legacy guard_fix (slice text (labels_start + 1)%Z labels_end) true;
      let name := slice_to text labels_start in
      (* the pinned source tests the suffixes before a quoted name is taken from the labels, i.e. on '' *)
      if negb fix_nhsfx && om_ends_with_any om_nh_suffixes name then Err ValueError else
      do '(name', labels') <-
         (match name with
          | [] => match d_find str_eqb labels OM_name_key with
                  | None => Err ValueError
                  | Some n => let l' := d_remove str_eqb labels OM_name_key in
                              Ok (n, match l' with [] => None | _ => Some l' end)
                  end
          | _ => Ok (name, Some labels)
          end);
      if fix_nhsfx && om_ends_with_any om_nh_suffixes name' then Err ValueError else
      do nh <- om_parse_nh_struct (slice_from text nh_start);
      Ok (Some {| os_name := name'; os_labels := labels'; os_value := None; os_ts := None; os_ex := None;
                  os_nh := Some nh |})
    else
      let name := slice_to text (nh_start - 1)%Z in
      if om_ends_with_any om_nh_suffixes name then Err ValueError else
      do nh <- om_parse_nh_struct (slice_from text nh_start);
      Ok (Some {| os_name := name; os_labels := None; os_value := None; os_ts := None; os_ex := None;
                  os_nh := Some nh |}).

  (* ---- _parse_sample ---- *)
  Definition om_parse_sample (text : str) : res om_sample :=
    let label_start := next_unquoted_char text [LBRACE] 0 in
    if (label_start =? -1)%Z || contains_sub OM_exsep (slice_to text label_start) then
      let name_end := next_unquoted_char text [SP] 0 in
      let name := slice_to text name_end in
      if negb (is_valid_legacy_metric_name name) then Err ValueError else
      do '(v, ts, ex) <- om_parse_remaining_text (slice_from text (name_end + 1)%Z);
      Ok {| os_name := name; os_labels := Some []; os_value := Some v; os_ts := ts; os_ex := ex; os_nh := None |}
    else
      let name := slice_to text label_start in
      if fix_sname && (match name with [] => false | _ => negb (is_valid_legacy_metric_name name) end)
      then Err ValueError else
      let label_end := next_unquoted_char text [RBRACE] 0 in
      do labels <- parse_labels legacy guard_fix (slice text (label_start + 1)%Z label_end) true;
      do '(name', labels') <-
         (match name with
          | [] => match d_find str_eqb labels OM_name_key with
                  | None => Err ValueError
                  | Some n => Ok (n, d_remove str_eqb labels OM_name_key)
                  end
          | _ => if d_mem str_eqb labels OM_name_key then Err ValueError else Ok (name, labels)
          end);
      do '(v, ts, ex) <- om_parse_remaining_text (slice_from text (label_end + 2)%Z);
      Ok {| os_name := name'; os_labels := Some labels'; os_value := Some v; os_ts := ts; os_ex := ex;
            os_nh := None |}.

  (* ---- helpers on samples that may carry None ---- *)
  Definition om_labels_of (s : om_sample) : res (assoc str str) :=   (* attribute/method access on labels *)
    match os_labels s with Some l => Ok l | None => Err AttributeError end.

  (* dict == dict: keys are unique, so equality of the key-sorted item lists *)
  Definition om_dict_eqb (a b : assoc str str) : bool := om_kvs_eqb (sort_kv a) (sort_kv b).

  (* _group_for_sample; the result may be None (labels of a native-histogram sample) *)
  Definition om_group_for_sample (s : om_sample) (name typ : str) : res (option (assoc str str)) :=
    let del (k : str) :=
      do l <- om_labels_of s;
      do d <- d_del str_eqb l k; Ok (Some d) in
    if str_eqb typ OM_info then Ok (Some [])
    else if str_eqb typ OM_summary && str_eqb (os_name s) name then del OM_quantile
    else if str_eqb typ OM_stateset then del name
    else if (str_eqb typ OM_histogram || str_eqb typ OM_gaugehistogram) && str_eqb (os_name s) (name ++ OM_bucket)
    then del OM_le
    else Ok (os_labels s).

  (* ---- _check_histogram ---- *)
  Record om_hv := { hv_count : option NUM; hv_bucket : option NUM; hv_negb : bool; hv_sum : bool;
                    hv_gsum : bool; hv_neggsum : bool; hv_value : NUM }.
  Definition om_hv_init : om_hv :=
    {| hv_count := None; hv_bucket := None; hv_negb := false; hv_sum := false; hv_gsum := false;
       hv_neggsum := false; hv_value := num_zero |}.

  (* do_checks; reading the variables before any group initialised them is UnboundLocalError *)
  Definition om_do_checks (h : option om_hv) : res unit :=
    match h with
    | None => Err UnboundLocalError
    | Some h =>
        if (match hv_bucket h with Some b => negb (num_eqb b num_inf) | None => true end) then Err ValueError else
        if (match hv_count h with Some c => negb (num_eqb (hv_value h) c) | None => false end) then Err ValueError else
        if hv_sum h && (match hv_count h with None => true | _ => false end) then Err ValueError else
        if hv_gsum h && (match hv_count h with None => true | _ => false end) then Err ValueError else
        if negb (hv_sum h || hv_gsum h) && (match hv_count h with Some _ => true | None => false end) then Err ValueError else
        if hv_negb h && hv_sum h then Err ValueError else
        if negb (hv_negb h) && hv_neggsum h then Err ValueError else
        Ok tt
    end.

  Definition om_optdict_eqb (a b : option (assoc str str)) : bool :=
    match a, b with
    | None, None => true
    | Some x, Some y => om_dict_eqb x y
    | _, _ => false
    end.

  Definition om_value_of (s : om_sample) : res NUM :=    (* comparison on a None value *)
    match os_value s with Some v => Ok v | None => Err TypeError end.

  Record om_hstate := { hs_group : option (assoc str str); hs_ts : option om_tsv; hs_hv : option om_hv }.

  Definition om_check_hist_step (name : str) (st : om_hstate) (s : om_sample) : res om_hstate :=
    let suffix := skipn (length name) (os_name s) in
    do g <- om_group_for_sample s name OM_histogram;
    match suffix with
    | [] => Ok st
    | _ =>
        do hv0 <-
           (if negb (om_optdict_eqb g (hs_group st)) || negb (om_ts_eqb (os_ts s) (hs_ts st)) then
              do _ <- (match hs_group st with Some _ => om_do_checks (hs_hv st) | None => Ok tt end);
              Ok (Some om_hv_init)
            else Ok (hs_hv st));
        let finish (hv : option om_hv) := Ok {| hs_group := g; hs_ts := os_ts s; hs_hv := hv |} in
        let upd (f : om_hv -> om_hv) := finish (match hv0 with Some h => Some (f h) | None => None end) in
        if str_eqb suffix OM_bucket then
          do lv <- (match os_labels s with
                    | None => Err TypeError
                    | Some l => d_get str_eqb l OM_le
                    end);
          do b <- (match parse_float lv with Some b => Ok b | None => Err ValueError end);
          match hv0 with
          | None => Err UnboundLocalError
          | Some h =>
              let negb' := if num_lt b num_zero then true else hv_negb h in
              if (match hv_bucket h with Some bk => om_num_le b bk | None => false end) then Err ValueError else
              do v <- om_value_of s;
              if num_lt v (hv_value h) then Err ValueError else
              finish (Some {| hv_count := hv_count h; hv_bucket := Some b; hv_negb := negb'; hv_sum := hv_sum h;
                              hv_gsum := hv_gsum h; hv_neggsum := hv_neggsum h; hv_value := v |})
          end
        else if str_eqb suffix OM_count || str_eqb suffix OM_gcount then
          match os_value s with
          | Some v => upd (fun h => {| hv_count := Some v; hv_bucket := hv_bucket h; hv_negb := hv_negb h;
                                       hv_sum := hv_sum h; hv_gsum := hv_gsum h; hv_neggsum := hv_neggsum h;
                                       hv_value := hv_value h |})
          | None => upd (fun h => {| hv_count := None; hv_bucket := hv_bucket h; hv_negb := hv_negb h;
                                     hv_sum := hv_sum h; hv_gsum := hv_gsum h; hv_neggsum := hv_neggsum h;
                                     hv_value := hv_value h |})
          end
        else if str_eqb suffix OM_sum then
          upd (fun h => {| hv_count := hv_count h; hv_bucket := hv_bucket h; hv_negb := hv_negb h;
                           hv_sum := true; hv_gsum := hv_gsum h; hv_neggsum := hv_neggsum h;
                           hv_value := hv_value h |})
        else if str_eqb suffix OM_gsum then
          do v <- om_value_of s;
          upd (fun h => {| hv_count := hv_count h; hv_bucket := hv_bucket h; hv_negb := hv_negb h;
                           hv_sum := hv_sum h; hv_gsum := true;
                           hv_neggsum := if num_lt v num_zero then true else hv_neggsum h;
                           hv_value := hv_value h |})
        else finish hv0
    end.

  Fixpoint om_check_hist_run (name : str) (st : om_hstate) (l : list om_sample) : res om_hstate :=
    match l with
    | [] => Ok st
    | s :: r => do st' <- om_check_hist_step name st s; om_check_hist_run name st' r
    end.

  Definition om_check_histogram (samples : list om_sample) (name : str) : res unit :=
    do st <- om_check_hist_run name {| hs_group := None; hs_ts := None; hs_hv := None |} samples;
    match hs_group st with
    | Some _ => om_do_checks (hs_hv st)
    | None => Ok tt
    end.

  (* ---- build_metric ---- *)
  Record om_family := { of_name : str; of_doc : str; of_type : str; of_unit : str; of_samples : list om_sample }.

  Definition om_validate_metric_name (name : str) : res unit :=
    if legacy then validate_metric_name_legacy name else validate_metric_name_utf8 name.

  Fixpoint om_nodup_str (l : list str) : list str :=
    match l with [] => [] | x :: r => if mem_str x r then om_nodup_str r else x :: om_nodup_str r end.

  Definition om_build_metric (seen : list str) (name : str) (doc typ unit : option str)
             (samples : list om_sample) : res (om_family * list str) :=
    let typ := match typ with None => OM_unknown | Some t => t end in
    let names := map (fun sfx => name ++ sfx) (om_nodup_str (om_type_suffixes typ [] ++ [[]])) in
    if existsb (fun n => mem_str n seen) names then Err ValueError else
    let seen' := seen ++ names in
    let doc := match doc with None => [] | Some d => d end in
    let unit := match unit with None => [] | Some u => u end in
    let has_unit := match unit with [] => false | _ => true end in
    if has_unit && negb (ends_with (USCORE :: unit) name) then Err ValueError else
    if has_unit && (str_eqb typ OM_info || str_eqb typ OM_stateset) then Err ValueError else
    do _ <- (if str_eqb typ OM_histogram || str_eqb typ OM_gaugehistogram
             then om_check_histogram samples name else Ok tt);
    do _ <- om_validate_metric_name name;
    (* Metric(name, documentation, typ, unit) *)
    do _ <- om_validate_metric_name name;
    if mem_str typ OM_METRIC_TYPES
    then Ok ({| of_name := name; of_doc := doc; of_type := typ; of_unit := unit; of_samples := samples |}, seen')
    else Err ValueError.

  (* ---- the line loop ---- *)
  Record om_st := {
    st_name : option str; st_allowed : list str; st_eof : bool; st_seen : list str;
    st_typ : option str; st_doc : option str; st_unit : option str;
    st_group : option (list (str * str)); st_seen_groups : list (list (str * str));
    st_gts : option om_tsv; st_gts_samples : list (str * list (str * str));
    st_samples : list om_sample        (* reversed *) }.

  Definition om_st_init : om_st :=
    {| st_name := None; st_allowed := []; st_eof := false; st_seen := []; st_typ := None; st_doc := None;
       st_unit := None; st_group := None; st_seen_groups := []; st_gts := None; st_gts_samples := [];
       st_samples := [] |}.

  (* yield build_metric(...) for the family in progress, if any *)
  Definition om_flush (st : om_st) : res (list om_family * list str) :=
    match st_name st with
    | None => Ok ([], st_seen st)
    | Some n =>
        do '(m, seen') <- om_build_metric (st_seen st) n (st_doc st) (st_typ st) (st_unit st) (rev (st_samples st));
        Ok ([m], seen')
    end.

  Definition om_new_family (st : om_st) (seen : list str) (name : str) (typ : option str) (allowed : list str) : om_st :=
    {| st_name := Some name; st_allowed := allowed; st_eof := st_eof st; st_seen := seen;
       st_typ := typ; st_doc := None; st_unit := None; st_group := None; st_seen_groups := [];
       st_gts := None; st_gts_samples := []; st_samples := [] |}.

  Definition om_opt_str_eqb (a : option str) (b : str) : bool :=
    match a with Some x => str_eqb x b | None => false end.

  Definition om_meta_line (st : om_st) (line : str) : res (om_st * list om_family) :=
    do parts <- split_quoted line [SP] 3;
    match parts with
    | _ :: kw :: p2 :: p3 :: _ =>
        do '(cand, quoted) <- unquote_unescape_with guard_fix p2;
        if negb quoted && negb (is_valid_legacy_metric_name cand) then Err ValueError else
        let same := om_opt_str_eqb (st_name st) cand in
        if same && (match st_samples st with [] => false | _ => true end) then Err ValueError else
        do '(st1, out) <-
           (if negb same then
              do '(out, seen') <- om_flush st;
              Ok (om_new_family st seen' cand None [cand], out)
            else Ok (st, []));
        let name := cand in
        if str_eqb kw OM_HELP then
          match st_doc st1 with
          | Some _ => Err ValueError
          | None => Ok ({| st_name := st_name st1; st_allowed := st_allowed st1; st_eof := st_eof st1;
                           st_seen := st_seen st1; st_typ := st_typ st1; st_doc := Some (om_unescape_help p3);
                           st_unit := st_unit st1; st_group := st_group st1;
                           st_seen_groups := st_seen_groups st1; st_gts := st_gts st1;
                           st_gts_samples := st_gts_samples st1; st_samples := st_samples st1 |}, out)
          end
        else if str_eqb kw OM_TYPE then
          match st_typ st1 with
          | Some _ => Err ValueError
          | None =>
              if str_eqb p3 OM_untyped then Err ValueError else
              Ok ({| st_name := st_name st1;
                     st_allowed := map (fun n => name ++ n) (om_type_suffixes p3 [[]]);
                     st_eof := st_eof st1; st_seen := st_seen st1; st_typ := Some p3; st_doc := st_doc st1;
                     st_unit := st_unit st1; st_group := st_group st1;
                     st_seen_groups := st_seen_groups st1; st_gts := st_gts st1;
                     st_gts_samples := st_gts_samples st1; st_samples := st_samples st1 |}, out)
          end
        else if str_eqb kw OM_UNIT then
          match st_unit st1 with
          | Some _ => Err ValueError
          | None => Ok ({| st_name := st_name st1; st_allowed := st_allowed st1; st_eof := st_eof st1;
                           st_seen := st_seen st1; st_typ := st_typ st1; st_doc := st_doc st1;
                           st_unit := Some (if fix_unit then om_unescape_help p3 else p3); st_group := st_group st1;
                           st_seen_groups := st_seen_groups st1; st_gts := st_gts st1;
                           st_gts_samples := st_gts_samples st1; st_samples := st_samples st1 |}, out)
          end
        else Err ValueError
    | _ => Err ValueError
    end.

  Definition om_typ_is (t : option str) (x : str) : bool := om_opt_str_eqb t x.

  (* math.isnan(sample.value) *)
  Definition om_isnan (v : option NUM) : res bool :=
    match v with
    | None => Err TypeError
    | Some x => if fix_isnan then Ok (om_num_nan x)
                else if num_huge x then Err OverflowError else Ok (om_num_nan x)
    end.

  (* `not isinstance(v, int) and not v.is_integer()` *)
  Definition om_not_integral (v : option NUM) : res bool :=
    match v with
    | None => Err AttributeError
    | Some x => Ok (negb (num_integral x))
    end.

  (* _isUncanonicalNumber *)
  Definition om_uncanonical (s : str) : res bool :=
    match parse_float s with
    | None => Err ValueError
    | Some f => Ok (num_eqb f num_inf && negb (str_eqb s OM_pInf))
    end.

  (* the per-sample checks in front of the grouping code (source lines 592-607) *)
  Definition om_pre_checks (name : str) (typ : option str) (s : om_sample) : res unit :=
    do _ <- (if om_typ_is typ OM_stateset then
               match os_labels s with
               | None => Err TypeError
               | Some l => if d_mem str_eqb l name then Ok tt else Err ValueError
               end
             else Ok tt);
    do _ <- (if str_eqb (name ++ OM_bucket) (os_name s) then
               do l <- om_labels_of s;
               match d_find str_eqb l OM_le with
               | None => Err ValueError
               | Some v => if str_eqb v OM_NaN then Err ValueError
                           else do u <- om_uncanonical v; if u then Err ValueError else Ok tt
               end
             else Ok tt);
    do _ <- (if str_eqb (name ++ OM_bucket) (os_name s) then
               do b <- om_not_integral (os_value s); if b then Err ValueError else Ok tt
             else Ok tt);
    do _ <- (if str_eqb (name ++ OM_count) (os_name s) || str_eqb (name ++ OM_gcount) (os_name s) then
               do b <- om_not_integral (os_value s); if b then Err ValueError else Ok tt
             else Ok tt);
    if om_typ_is typ OM_summary && str_eqb name (os_name s) then
      do l <- om_labels_of s;
      match d_find str_eqb l OM_quantile with
      | None => Err ValueError                      (* float(-1) is outside [0, 1] *)
      | Some qv =>
          match parse_float qv with
          | None => Err ValueError
          | Some q =>
              if negb (om_num_le num_zero q && om_num_le q num_one) then Err ValueError
              else do u <- om_uncanonical qv; if u then Err ValueError else Ok tt
          end
      end
    else Ok tt.

  (* the value / exemplar checks after the sample was recorded (source lines 633-647) *)
  Definition om_post_checks (name : str) (typ : option str) (s : om_sample) : res unit :=
    let veq (c : NUM) := match os_value s with Some v => num_eqb v c | None => false end in
    if om_typ_is typ OM_stateset && negb (veq num_zero || veq num_one) then Err ValueError else
    if om_typ_is typ OM_info && negb (veq num_one) then Err ValueError else
    do _ <- (if om_typ_is typ OM_summary && str_eqb name (os_name s) then
               do v <- om_value_of s; if num_lt v num_zero then Err ValueError else Ok tt
             else Ok tt);
    let tail := skipn (length name) (os_name s) in
    do _ <- (if mem_str tail [OM_total; OM_sum; OM_count; OM_bucket; OM_gcount; OM_gsum] then
               do b <- om_isnan (os_value s); if b then Err ValueError else Ok tt
             else Ok tt);
    do _ <- (if mem_str tail [OM_total; OM_sum; OM_count; OM_bucket; OM_gcount] then
               do v <- om_value_of s; if num_lt v num_zero then Err ValueError else Ok tt
             else Ok tt);
    match os_ex s with
    | Some _ =>
        if ((om_typ_is typ OM_histogram || om_typ_is typ OM_gaugehistogram) && ends_with OM_bucket (os_name s))
           || (om_typ_is typ OM_counter && ends_with OM_total (os_name s))
        then Ok tt else Err ValueError
    | None => Ok tt
    end.

  (* the line is read as a native-histogram sample first when the family in progress is a histogram *)
  Definition om_read_sample (typ : option str) (line : str) : res (om_sample * bool) :=
    if om_typ_is typ OM_histogram then
      do r <- om_parse_nh_sample line;
      match r with
      | Some s => Ok (s, true)
      | None => do s <- om_parse_sample line; Ok (s, false)
      end
    else do s <- om_parse_sample line; Ok (s, false).

  (* the name of the implicit unknown family a sample starts.  Repaired source (fix_sname, fixes/C04-om-implicit-family-name.diff):
     the sample's name as it is - it is already unquoted and unescaped, and a bare one was validated by _parse_sample.
     Pinned source: _unquote_unescape is applied to it AGAIN (strip, a second unquoting when it starts with a quote
     character, a second unescaping) and the result must be a legacy name unless that second unquoting happened. *)
  Definition om_implicit_name (sample : om_sample) : res str :=
    if fix_sname then Ok (os_name sample) else
    do '(cand, quoted) <- unquote_unescape_with guard_fix (os_name sample);
    if negb quoted && negb (is_valid_legacy_metric_name cand) then Err ValueError else Ok cand.

  (* a sample whose name the family in progress does not allow closes it and starts an unknown family.
     A native-histogram sample is exempt: it is named like the histogram family itself, and that bare name is not among
     a histogram's allowed names.  Repaired source (fix_nhsfx, fixes/C15-om-native-foreign-name.diff): only a native
     sample that carries the name of the family in progress is exempt, one of a foreign name is rejected (a native
     histogram value belongs to the histogram family of its own name only).  Pinned source: every native sample is
     exempt, so it is attached to the histogram family in progress WHATEVER ITS NAME (the `if is_nh` below is then dead). *)
  Definition om_enter_family (st : om_st) (sample : om_sample) (is_nh : bool) : res (om_st * list om_family) :=
    if negb (mem_str (os_name sample) (st_allowed st))
       && negb (is_nh && (negb fix_nhsfx || om_opt_str_eqb (st_name st) (os_name sample))) then
      if is_nh then Err ValueError else
      do '(out, seen') <- om_flush st;
      do cand <- om_implicit_name sample;
      Ok (om_new_family st seen' cand (Some OM_unknown) [os_name sample], out)
    else Ok (st, []).

  (* group / timestamp bookkeeping and duplicate suppression (source lines 609-632).
     Repaired source (fixes/C15-om-later-exposure.diff): the duplicate set describes the CURRENT timestamp of the group
     only - it is emptied when the timestamp of the sample differs from the group's.  om_group_step_orig below is the
     pinned step, which emptied it on a group change only: at a later timestamp of the same group every series but the
     first was dropped as a duplicate before _check_histogram ran. *)
  Definition om_group_step (st1 : om_st) (name : str) (sample : om_sample) : res om_st :=
    let typ := st_typ st1 in
    let typs := match typ with Some t => t | None => [] end in
    do go <- om_group_for_sample sample name typs;
    do gd <- (match go with Some d => Ok d | None => Err AttributeError end);
    let g := sort_kv gd in
    let has_group := match st_group st1 with Some _ => true | None => false end in
    let same_group := match st_group st1 with Some g0 => om_kvs_eqb g g0 | None => false end in
    if has_group && negb same_group && om_mem_kvs g (st_seen_groups st1) then Err ValueError else
    do gts_samples <-
       (if same_group then
          if negb (Bool.eqb (match os_ts sample with None => true | _ => false end)
                            (match st_gts st1 with None => true | _ => false end))
          then Err ValueError else
          match st_gts st1, os_ts sample with
          | Some a, Some b =>
              do gt <- om_ts_gt a b;
              if gt && negb (om_typ_is typ OM_info) then Err ValueError else Ok (st_gts_samples st1)
          | Some _, None => Err TypeError
          | None, _ => Ok (st_gts_samples st1)
          end
        else Ok []);
    do labels <- om_labels_of sample;
    let gts_samples := if negb (om_ts_eqb (os_ts sample) (st_gts st1)) then [] else gts_samples in
    let sid := (os_name sample, sort_kv labels) in
    let samples' :=
      if negb (om_ts_eqb (os_ts sample) (st_gts st1)) || negb (om_mem_sid sid gts_samples)
      then sample :: st_samples st1 else st_samples st1 in
    Ok {| st_name := st_name st1; st_allowed := st_allowed st1; st_eof := st_eof st1;
          st_seen := st_seen st1; st_typ := st_typ st1; st_doc := st_doc st1; st_unit := st_unit st1;
          st_group := Some g; st_seen_groups := g :: st_seen_groups st1; st_gts := os_ts sample;
          st_gts_samples := sid :: gts_samples; st_samples := samples' |}.

  (* the pinned step: the duplicate set survives a change of timestamp inside the group *)
  Definition om_group_step_orig (st1 : om_st) (name : str) (sample : om_sample) : res om_st :=
    let typ := st_typ st1 in
    let typs := match typ with Some t => t | None => [] end in
    do go <- om_group_for_sample sample name typs;
    do gd <- (match go with Some d => Ok d | None => Err AttributeError end);
    let g := sort_kv gd in
    let has_group := match st_group st1 with Some _ => true | None => false end in
    let same_group := match st_group st1 with Some g0 => om_kvs_eqb g g0 | None => false end in
    if has_group && negb same_group && om_mem_kvs g (st_seen_groups st1) then Err ValueError else
    do gts_samples <-
       (if same_group then
          if negb (Bool.eqb (match os_ts sample with None => true | _ => false end)
                            (match st_gts st1 with None => true | _ => false end))
          then Err ValueError else
          match st_gts st1, os_ts sample with
          | Some a, Some b =>
              do gt <- om_ts_gt a b;
              if gt && negb (om_typ_is typ OM_info) then Err ValueError else Ok (st_gts_samples st1)
          | Some _, None => Err TypeError
          | None, _ => Ok (st_gts_samples st1)
          end
        else Ok []);
    do labels <- om_labels_of sample;
    let sid := (os_name sample, sort_kv labels) in
    let samples' :=
      if negb (om_ts_eqb (os_ts sample) (st_gts st1)) || negb (om_mem_sid sid gts_samples)
      then sample :: st_samples st1 else st_samples st1 in
    Ok {| st_name := st_name st1; st_allowed := st_allowed st1; st_eof := st_eof st1;
          st_seen := st_seen st1; st_typ := st_typ st1; st_doc := st_doc st1; st_unit := st_unit st1;
          st_group := Some g; st_seen_groups := g :: st_seen_groups st1; st_gts := os_ts sample;
          st_gts_samples := sid :: gts_samples; st_samples := samples' |}.

  Definition om_append_sample (st1 : om_st) (sample : om_sample) : om_st :=
    {| st_name := st_name st1; st_allowed := st_allowed st1; st_eof := st_eof st1;
       st_seen := st_seen st1; st_typ := st_typ st1; st_doc := st_doc st1; st_unit := st_unit st1;
       st_group := st_group st1; st_seen_groups := st_seen_groups st1; st_gts := st_gts st1;
       st_gts_samples := st_gts_samples st1; st_samples := sample :: st_samples st1 |}.

  Definition om_sample_line (st : om_st) (line : str) : res (om_st * list om_family) :=
    do '(sample, is_nh) <- om_read_sample (st_typ st) line;
    do '(st1, out) <- om_enter_family st sample is_nh;
    match st_name st1 with
    | None => Err TypeError          (* name + '_bucket' with name None: only for a native-histogram line, *)
                                     (* which needs typ == 'histogram', hence a name *)
    | Some name =>
        do _ <- om_pre_checks name (st_typ st1) sample;
        do st2 <- (if negb is_nh then om_group_step st1 name sample else Ok (om_append_sample st1 sample));
        do _ <- om_post_checks name (st_typ st1) sample;
        Ok (st2, out)
    end.

  Definition om_step_line (st : om_st) (line : str) : res (om_st * list om_family) :=
    if st_eof st then Err ValueError else
    match line with
    | [] => Err ValueError
    | c :: _ =>
        if str_eqb line OM_EOF then
          Ok ({| st_name := st_name st; st_allowed := st_allowed st; st_eof := true; st_seen := st_seen st;
                 st_typ := st_typ st; st_doc := st_doc st; st_unit := st_unit st; st_group := st_group st;
                 st_seen_groups := st_seen_groups st; st_gts := st_gts st;
                 st_gts_samples := st_gts_samples st; st_samples := st_samples st |}, [])
        else if c =? HASH then om_meta_line st line
        else om_sample_line st line
    end.

  Fixpoint om_run_lines (st : om_st) (lines : list str) (acc : list om_family) : res (list om_family) :=
    match lines with
    | [] =>
        do '(out, _) <- om_flush st;
        if st_eof st then Ok (acc ++ out) else Err ValueError
    | l :: r => do '(st', out) <- om_step_line st l; om_run_lines st' r (acc ++ out)
    end.

  (* `for line in fd` on a StringIO: lines end at LF; a trailing empty piece is not a line *)
  Definition om_lines (text : str) : list str :=
    let pieces := split_char LF text in
    match rev pieces with [] :: r => rev r | _ => pieces end.

  Definition om_parse (text : str) : res (list om_family) :=
    om_run_lines om_st_init (om_lines text) [].
End OMParser.

(* the number type is inferred from the records *)
Arguments st_name {NUM}. Arguments st_allowed {NUM}. Arguments st_eof {NUM}. Arguments st_seen {NUM}.
Arguments st_typ {NUM}. Arguments st_doc {NUM}. Arguments st_unit {NUM}. Arguments st_group {NUM}.
Arguments st_seen_groups {NUM}. Arguments st_gts {NUM}. Arguments st_gts_samples {NUM}. Arguments st_samples {NUM}.
Arguments os_name {NUM}. Arguments os_labels {NUM}. Arguments os_value {NUM}. Arguments os_ts {NUM}.
Arguments os_ex {NUM}. Arguments os_nh {NUM}.
Arguments hv_count {NUM}. Arguments hv_bucket {NUM}. Arguments hv_negb {NUM}. Arguments hv_sum {NUM}.
Arguments hv_gsum {NUM}. Arguments hv_neggsum {NUM}. Arguments hv_value {NUM}.
Arguments hs_group {NUM}. Arguments hs_ts {NUM}. Arguments hs_hv {NUM}.
Arguments of_name {NUM}. Arguments of_doc {NUM}. Arguments of_type {NUM}. Arguments of_unit {NUM}.
Arguments of_samples {NUM}.
Arguments om_st_init {NUM}.
Arguments OTs {NUM}. Arguments OTf {NUM}.
Arguments om_value_of {NUM}. Arguments om_labels_of {NUM}. Arguments om_group_for_sample {NUM}.
Arguments om_append_sample {NUM}. Arguments om_new_family {NUM}.
