(* Models of exposition.generate_latest (text 0.0.4) and openmetrics.exposition.generate_latest.
   Sample values arrive as the float class of model/Utils.v (the float itself is outside the model);
   text timestamps arrive as the integer number of milliseconds; OpenMetrics timestamps as the three
   forms str() can take. *)
From V Require Import lib.PyBase lib.PyStr model.Utils model.Validation.
Open Scope N_scope.

(* s.replace(c, rep) for a one-character pattern *)
Definition replace_char (c : char) (rep : str) (s : str) : str :=
  flat_map (fun x => if x =? c then rep else [x]) s.

(* openmetrics.exposition._escape: three chained replaces *)
Definition escape_chain (s : str) : str :=
  replace_char DQ [BS; DQ] (replace_char LF [BS; CH_n] (replace_char BS [BS; BS] s)).
(* the same thing in one pass (proved equal in proofs/EscapeProofs.v) *)
Definition escape1 (c : char) : str :=
  if c =? BS then [BS; BS] else if c =? LF then [BS; CH_n] else if c =? DQ then [BS; DQ] else [c].
Definition escape (s : str) : str := flat_map escape1 s.

(* documentation.replace('\\', r'\\').replace('\n', r'\n') *)
Definition help_escape_chain (s : str) : str :=
  replace_char LF [BS; CH_n] (replace_char BS [BS; BS] s).
Definition help_escape1 (c : char) : str :=
  if c =? BS then [BS; BS] else if c =? LF then [BS; CH_n] else [c].
Definition help_escape (s : str) : str := flat_map help_escape1 s.

Definition quote (s : str) : str := DQ :: s ++ [DQ].
Definition escape_metric_name (s : str) : str :=
  if is_valid_legacy_metric_name s then s else quote (escape_chain s).
Definition escape_label_name (s : str) : str :=
  if is_valid_legacy_labelname s then s else quote (escape_chain s).

(* sorted(labels.items()): insertion sort on the key, code-point order *)
Fixpoint insert_kv (kv : str * str) (l : list (str * str)) : list (str * str) :=
  match l with
  | [] => [kv]
  | x :: r => if str_ltb (fst x) (fst kv) then x :: insert_kv kv r
              else if str_eqb (fst x) (fst kv) && str_ltb (snd x) (snd kv) then x :: insert_kv kv r
              else kv :: l
  end.
Definition sort_kv (l : list (str * str)) : list (str * str) := fold_right insert_kv [] l.

Inductive om_ts :=
  | TsInt (z : Z)                     (* int *)
  | TsNanos (sec : Z) (nsec : N)      (* samples.Timestamp: f"{sec}.{nsec:09d}" *)
  | TsRepr (r : str).                 (* float: repr, supplied by CPython *)

Record exemplar := { ex_labels : list (str * str); ex_value : fclass; ex_ts : option om_ts }.
Record sample := {
  s_name : str; s_labels : list (str * str); s_value : fclass;
  s_ts_ms : option Z;          (* text format: int(float(ts) * 1000) *)
  s_ts_om : option om_ts;      (* OpenMetrics: str(ts) *)
  s_ex : option exemplar }.
Record family := {
  f_name : str; f_doc : str; f_type : str; f_unit : str; f_samples : list sample }.

Definition dec_of_Z (z : Z) : str :=
  match z with
  | Z0 => [ZERO]
  | Zpos p => dec_of_N (Npos p)
  | Zneg p => MINUS :: dec_of_N (Npos p)
  end.

Definition label_pair (kv : str * str) : str :=
  escape_label_name (fst kv) ++ [EQS] ++ quote (escape_chain (snd kv)).
Definition labelstr (labels : list (str * str)) : str :=
  join [COMMA] (map label_pair (sort_kv labels)).

(* ---------------- text format ---------------- *)
Definition text_sample_line (s : sample) : str :=
  let ls := match s_labels s with [] => [] | _ => labelstr (s_labels s) end in
  let ts := match s_ts_ms s with None => [] | Some ms => SP :: dec_of_Z ms end in
  if is_valid_legacy_metric_name (s_name s) then
    s_name s ++ (match ls with [] => [] | _ => LBRACE :: ls ++ [RBRACE] end)
      ++ [SP] ++ go_string (s_value s) ++ ts ++ [LF]
  else
    [LBRACE] ++ escape_metric_name (s_name s) ++ (match ls with [] => [] | _ => [COMMA] end) ++ ls
      ++ [RBRACE; SP] ++ go_string (s_value s) ++ ts ++ [LF].

Definition S_HELP := Eval compute in s2l "# HELP ".
Definition S_TYPE := Eval compute in s2l "# TYPE ".
Definition S_UNIT := Eval compute in s2l "# UNIT ".
Definition S_EOF := Eval compute in s2l "# EOF".
Definition S_total := Eval compute in s2l "_total".
Definition S_info := Eval compute in s2l "_info".
Definition S_created := Eval compute in s2l "_created".
Definition S_gsum := Eval compute in s2l "_gsum".
Definition S_gcount := Eval compute in s2l "_gcount".
Definition S_counter := Eval compute in s2l "counter".
Definition S_gauge := Eval compute in s2l "gauge".
Definition S_histogram := Eval compute in s2l "histogram".
Definition S_gaugehistogram := Eval compute in s2l "gaugehistogram".
Definition S_summary := Eval compute in s2l "summary".
Definition S_unknown := Eval compute in s2l "unknown".
Definition S_untyped := Eval compute in s2l "untyped".
Definition S_stateset := Eval compute in s2l "stateset".
Definition S_infot := Eval compute in s2l "info".
Definition S_bucket := Eval compute in s2l "_bucket".

Definition text_munge (name typ : str) : str * str :=
  if str_eqb typ S_counter then (name ++ S_total, typ)
  else if str_eqb typ S_infot then (name ++ S_info, S_gauge)
  else if str_eqb typ S_stateset then (name, S_gauge)
  else if str_eqb typ S_gaugehistogram then (name, S_histogram)
  else if str_eqb typ S_unknown then (name, S_untyped)
  else (name, typ).

Definition text_meta (mname doc typ : str) : str :=
  S_HELP ++ escape_metric_name mname ++ [SP] ++ help_escape_chain doc ++ [LF]
  ++ S_TYPE ++ escape_metric_name mname ++ [SP] ++ typ ++ [LF].

(* which trailing-gauge bucket a sample goes to: first matching suffix of ['_created','_gsum','_gcount'] *)
Definition om_suffix_of (fname : str) (s : sample) : option nat :=
  if str_eqb (s_name s) (fname ++ S_created) then Some 0%nat
  else if str_eqb (s_name s) (fname ++ S_gsum) then Some 2%nat      (* sorted order: _created < _gcount < _gsum *)
  else if str_eqb (s_name s) (fname ++ S_gcount) then Some 1%nat
  else None.

Definition text_family (f : family) : str :=
  let '(mname, mtype) := text_munge (f_name f) (f_type f) in
  let main := filter (fun s => match om_suffix_of (f_name f) s with None => true | Some _ => false end) (f_samples f) in
  let bucket k := filter (fun s => match om_suffix_of (f_name f) s with Some j => Nat.eqb j k | None => false end) (f_samples f) in
  let trailing k suffix :=
    match bucket k with
    | [] => []
    | ss => text_meta (f_name f ++ suffix) (f_doc f) S_gauge ++ flat_map text_sample_line ss
    end in
  text_meta mname (f_doc f) mtype ++ flat_map text_sample_line main
  ++ trailing 0%nat S_created ++ trailing 1%nat S_gcount ++ trailing 2%nat S_gsum.

Definition text_render (fams : list family) : str := flat_map text_family fams.

(* ---------------- OpenMetrics ---------------- *)
Fixpoint pad9 (s : str) (n : nat) : str :=
  match n with O => s | S k => if Nat.ltb (length s) 9 then pad9 (ZERO :: s) k else s end.
Definition render_om_ts (t : om_ts) : str :=
  match t with
  | TsInt z => dec_of_Z z
  | TsNanos sec nsec => dec_of_Z sec ++ [DOT] ++ pad9 (dec_of_N nsec) 9
  | TsRepr r => r
  end.

(* the pinned source: `histogram and _bucket or name == family` - the last clause applies to every metric type *)
Definition is_valid_exemplar_metric_orig (ftype fname : str) (s : sample) : bool :=
  (str_eqb ftype S_counter && ends_with S_total (s_name s))
  || (contains_sub ftype S_gaugehistogram && ends_with S_bucket (s_name s))
  || (contains_sub ftype S_histogram && ends_with S_bucket (s_name s))
  || str_eqb (s_name s) fname.
(* the repaired source (fixes/C04-exemplar-eligibility.diff, C04-exemplar-type-equality.diff): the native-histogram clause is
   inside the histogram test, and the type is compared for equality - the pinned `metric.type in ('gaugehistogram')` is a
   substring test on a string, under which a GAUGE family ('gauge' is a substring) with a *_bucket sample was eligible *)
Definition is_valid_exemplar_metric (ftype fname : str) (s : sample) : bool :=
  (str_eqb ftype S_counter && ends_with S_total (s_name s))
  || (str_eqb ftype S_gaugehistogram && ends_with S_bucket (s_name s))
  || (str_eqb ftype S_histogram && (ends_with S_bucket (s_name s) || str_eqb (s_name s) fname)).

(* exemplar label NAMES and the unit are written raw by the pinned source (findings F3, F5); [exq] = true
   models the repaired source: names through escape_label_name like sample label names, unit escaped *)
Definition exemplar_str (exq : bool) (e : exemplar) : str :=
  let pair (kv : str * str) :=
    (if exq then escape_label_name (fst kv) else fst kv) ++ [EQS] ++ quote (escape_chain (snd kv)) in
  let labels := LBRACE :: join [COMMA] (map pair (sort_kv (ex_labels e))) ++ [RBRACE] in
  [SP; HASH; SP] ++ labels ++ [SP] ++ go_string (ex_value e)
  ++ match ex_ts e with None => [] | Some t => SP :: render_om_ts t end.

Definition om_sample_line (exq : bool) (ftype fname : str) (s : sample) : res str :=
  let legacy := is_valid_legacy_metric_name (s_name s) in
  let l0 := if legacy then [] else escape_metric_name (s_name s) ++ (match s_labels s with [] => [] | _ => [COMMA; SP] end) in
  let l1 := l0 ++ match s_labels s with [] => [] | _ => labelstr (s_labels s) end in
  let ls := match l1 with [] => [] | _ => LBRACE :: l1 ++ [RBRACE] end in
  do exs <- match s_ex s with
            | None => Ok []
            | Some e => if is_valid_exemplar_metric ftype fname s then Ok (exemplar_str exq e) else Err ValueError
            end;
  let ts := match s_ts_om s with None => [] | Some t => SP :: render_om_ts t end in
  Ok ((if legacy then s_name s ++ ls else ls) ++ [SP] ++ go_string (s_value s) ++ ts ++ exs ++ [LF]).

Fixpoint res_concat_map {A} (f : A -> res str) (l : list A) : res str :=
  match l with
  | [] => Ok []
  | x :: r => do a <- f x; do b <- res_concat_map f r; Ok (a ++ b)
  end.

Definition om_family (exq : bool) (f : family) : res str :=
  do ss <- res_concat_map (om_sample_line exq (f_type f) (f_name f)) (f_samples f);
  Ok (S_HELP ++ escape_metric_name (f_name f) ++ [SP] ++ escape_chain (f_doc f) ++ [LF]
      ++ S_TYPE ++ escape_metric_name (f_name f) ++ [SP] ++ f_type f ++ [LF]
      ++ (match f_unit f with [] => [] | u => S_UNIT ++ escape_metric_name (f_name f) ++ [SP] ++ (if exq then escape_chain u else u) ++ [LF] end)
      ++ ss).

Definition om_render (exq : bool) (fams : list family) : res str :=
  do body <- res_concat_map (om_family exq) fams;
  Ok (body ++ S_EOF ++ [LF]).
