(* C18 - prometheus_client/exposition.py : write_to_textfile, as a small effect machine over an abstract
   file system.  Definitions only.

     tmppath = f'{path}.{os.getpid()}.{threading.current_thread().ident}'
     try:
         with open(tmppath, 'wb') as f:                 # POpen      : creates / truncates the temporary file
             f.write(generate_latest(registry))         # PCollect i : every collector runs AFTER the open,
                                                        #              then the text is encoded (may fail),
                                                        # PWrite j   : then the write call(s) (the source has one),
                                                        # PClose     : with-exit: flush + close, whatever happened
         if os.name == 'nt': os.replace(tmppath, path)  # PRename    : the one step that touches the target
         else:               os.rename(tmppath, path)
     except BaseException:                              # (pinned source: `except Exception:` = w_catch_base false)
         if os.path.exists(tmppath):                    # PExists
             os.remove(tmppath)                         # PRemove
         raise                                          # PDone (Some e)

   One call of [wstep] = one I/O call of the Python (open, a collector, write, close, rename/replace, exists,
   remove) together with the silent code up to the next one; the file system after [n] steps is what a reader,
   or a crash, sees at that cut point.  Data written through the handle sits in [w_buf] until close when the
   handle is buffered (what io.BufferedWriter does for small data) and goes to disk at once otherwise.

   SHORT writes.  write(2) may accept only a prefix of what it is given (disk nearly full, quota, RLIMIT_FSIZE) and
   report the count instead of failing.  [w_short] lists, per submission index j, how many bytes submission j gets
   accepted.  The handle of `open(tmppath, 'wb')` is an io.BufferedWriter: it submits the remainder again
   ([w_retry] = true), which either goes through or raises (a [w_plan] fault at the next index).  A raw handle
   (buffering=0) whose write() result is ignored drops the remainder ([w_retry] = false).

   PATHS.  The file system below is ONE directory: the one the target lives in.  [base_of] / [dir_of] split a
   path as spelled by the caller ('m.prom', './m.prom', '../d/m.prom', '/a/b./m.prom') at its last '/';
   the temporary path is the spelled path plus a suffix without '/', so it names a file of the same directory
   (proofs: tmp_same_directory), and the machine works on base names.  *)
From V Require Import lib.PyBase.
Open Scope N_scope.

Module TF.

Definition bytes := list N.
(* the directory: file name -> content *)
Definition fs := list (str * bytes).

Definition fs_find (f : fs) (p : str) : option bytes := d_find str_eqb f p.
Definition fs_set (f : fs) (p : str) (b : bytes) : fs := d_set str_eqb f p b.
Fixpoint fs_remove (f : fs) (p : str) : fs :=
  match f with
  | [] => []
  | (q, b) :: r => if str_eqb p q then fs_remove r p else (q, b) :: fs_remove r p
  end.
(* write(2) on an open descriptor: appends to the file if it is still linked under that name *)
Definition fs_append (f : fs) (p : str) (b : bytes) : fs :=
  match fs_find f p with Some old => fs_set f p (old ++ b) | None => f end.

(* ---- errors ---- *)
(* the handler distinguishes two classes only: subclasses of Exception, and BaseException-only errors
   (KeyboardInterrupt, SystemExit, GeneratorExit) *)
Inductive eclass := EExc | EBase.
Inductive site := SOpen | SCollect (i : nat) | SEncode | SWrite (j : nat) | SClose | SRename | SExists | SRemove.
(* an error is identified by where it was raised and its class: "the same exception object reaches the caller" *)
Definition err := (site * eclass)%type.
(* an injected I/O fault: its class and how many bytes of the data in flight were accepted before it was raised *)
Definition fault := (eclass * nat)%type.

Definition site_eqb (a b : site) : bool :=
  match a, b with
  | SOpen, SOpen | SEncode, SEncode | SClose, SClose | SRename, SRename | SExists, SExists | SRemove, SRemove => true
  | SCollect i, SCollect j => Nat.eqb i j
  | SWrite i, SWrite j => Nat.eqb i j
  | _, _ => false
  end.

Fixpoint plan_find (p : list (site * fault)) (s : site) : option fault :=
  match p with
  | [] => None
  | (s', x) :: r => if site_eqb s s' then Some x else plan_find r s
  end.

(* what running one collector (and rendering its families) does: contributes text, contributes text that
   str.encode('utf-8') will refuse (a lone surrogate), or raises part-way *)
Inductive coutcome := CYield (b : bytes) | CBad | CRaise (c : eclass).

(* ---- one call ---- *)
Record wcfg := {
  w_path : str;                      (* target *)
  w_pid : N; w_tid : N;
  w_nt : bool;                       (* os.name == 'nt' *)
  w_buffered : bool;                 (* handle buffers until close *)
  w_colls : list coutcome;           (* the registry, in collection order *)
  w_split : list nat;                (* sizes of all write calls but the last; [] = the source's single write *)
  w_plan : list (site * fault);      (* injected I/O faults *)
  w_short : list (nat * nat);        (* short writes: submission index j -> bytes accepted (only if fewer than given) *)
  w_retry : bool;                    (* the handle submits the rest again after a short write (io.BufferedWriter) *)
  w_catch_base : bool                (* true: `except BaseException` (repaired); false: `except Exception` (pinned) *)
}.

Definition DOT : N := 46.
Definition SLASH : N := 47.
(* the path as spelled by the caller, split at its last '/' *)
Fixpoint has_slash (p : str) : bool :=
  match p with [] => false | x :: r => (x =? SLASH) || has_slash r end.
Fixpoint base_of (p : str) : str :=
  match p with [] => [] | x :: r => if has_slash p then base_of r else p end.
Fixpoint dir_of (p : str) : str :=
  match p with [] => [] | x :: r => if has_slash p then x :: dir_of r else [] end.

Definition tmp_name (path : str) (pid tid : N) : str := path ++ DOT :: dec_of_N pid ++ DOT :: dec_of_N tid.
Definition w_tmp (c : wcfg) : str := tmp_name (w_path c) (w_pid c) (w_tid c).

Inductive pc :=
  | POpen
  | PCollect (rest : list coutcome) (i : nat) (acc : option bytes)   (* acc = None: un-encodable text seen *)
  | PWrite (chunks : list bytes) (j : nat)
  | PClose (pending : option err)                                    (* with-exit; pending = error in flight *)
  | PRename
  | PExists (e : err)
  | PRemove (e : err)
  | PDone (r : option err).                                          (* returned / raised e to the caller *)

Record wstate := { w_pc : pc; w_buf : option bytes }.
Definition winit : wstate := {| w_pc := POpen; w_buf := None |}.

Definition catches (c : wcfg) (e : err) : bool :=
  match snd e with EExc => true | EBase => w_catch_base c end.
Definition to_handler (c : wcfg) (e : err) : pc := if catches c e then PExists e else PDone (Some e).

(* the complete new exposition, when there is one *)
Fixpoint coll_data (cs : list coutcome) (acc : option bytes) : option bytes :=
  match cs with
  | [] => acc
  | CYield b :: r => coll_data r (option_map (fun a => a ++ b) acc)
  | CBad :: r => coll_data r None
  | CRaise _ :: _ => None
  end.
Definition w_new (c : wcfg) : option bytes := coll_data (w_colls c) (Some []).

Fixpoint mk_chunks (split : list nat) (data : bytes) : list bytes :=
  match split with
  | [] => [data]
  | n :: r => firstn n data :: mk_chunks r (skipn n data)
  end.

(* the two system calls and what they do on the two kinds of platform (None = OSError) *)
Inductive syscall := CallRename | CallReplace.
Definition chosen_call (nt : bool) : syscall := if nt then CallReplace else CallRename.
Definition os_move (nt : bool) (call : syscall) (f : fs) (src dst : str) : option fs :=
  match fs_find f src with
  | None => None                                            (* FileNotFoundError *)
  | Some b =>
      match call, nt, fs_find f dst with
      | CallRename, true, Some _ => None                    (* Windows: rename onto an existing file fails *)
      | _, _, _ => Some (fs_set (fs_remove f src) dst b)    (* ATOMIC: one transition of the file system *)
      end
  end.

Fixpoint short_find (p : list (nat * nat)) (j : nat) : option nat :=
  match p with
  | [] => None
  | (j', n) :: r => if Nat.eqb j j' then Some n else short_find r j
  end.
(* submission j of chunk ch is cut short to n bytes: only when that is really fewer than what was given *)
Definition short_of (c : wcfg) (j : nat) (ch : bytes) : option nat :=
  match short_find (w_short c) j with
  | Some n => if Nat.ltb n (length ch) then Some n else None
  | None => None
  end.
(* short-write entries that can still fire at or after submission j *)
Definition shorts_from (p : list (nat * nat)) (j : nat) : nat :=
  length (filter (fun e => Nat.leb j (fst e)) p).

Definition accept (c : wcfg) (s : wstate) (f : fs) (b : bytes) : option bytes * fs :=
  if w_buffered c then (option_map (fun x => x ++ b) (w_buf s), f)
  else (w_buf s, fs_append f (w_tmp c) b).

Definition do_close (c : wcfg) (s : wstate) (f : fs) (pending : option err) : wstate * fs :=
  let b := match w_buf s with Some b => b | None => [] end in
  match plan_find (w_plan c) SClose with
  | Some (k, n) => ({| w_pc := to_handler c (SClose, k); w_buf := None |}, fs_append f (w_tmp c) (firstn n b))
  | None => ({| w_pc := match pending with Some e => to_handler c e | None => PRename end; w_buf := None |},
             fs_append f (w_tmp c) b)
  end.

Definition do_write (c : wcfg) (s : wstate) (f : fs) (chunks : list bytes) (j : nat) : wstate * fs :=
  match chunks with
  | [] => do_close c s f None
  | ch :: rest =>
      match plan_find (w_plan c) (SWrite j) with
      | Some (k, n) => let '(b', f') := accept c s f (firstn n ch) in
                       ({| w_pc := PClose (Some (SWrite j, k)); w_buf := b' |}, f')
      | None =>
          match short_of c j ch with
          | Some n => let '(b', f') := accept c s f (firstn n ch) in
                      ({| w_pc := PWrite (if w_retry c then skipn n ch :: rest else rest) (S j); w_buf := b' |}, f')
          | None => let '(b', f') := accept c s f ch in ({| w_pc := PWrite rest (S j); w_buf := b' |}, f')
          end
      end
  end.

Definition wstep (c : wcfg) (s : wstate) (f : fs) : wstate * fs :=
  let goto p := {| w_pc := p; w_buf := w_buf s |} in
  match w_pc s with
  | POpen =>
      match plan_find (w_plan c) SOpen with
      | Some (k, _) => (goto (to_handler c (SOpen, k)), f)
      | None => ({| w_pc := PCollect (w_colls c) 0 (Some []); w_buf := Some [] |}, fs_set f (w_tmp c) [])
      end
  | PCollect [] _ None => do_close c s f (Some (SEncode, EExc))
  | PCollect [] _ (Some data) => do_write c s f (mk_chunks (w_split c) data) 0
  | PCollect (CYield b :: rest) i acc => (goto (PCollect rest (S i) (option_map (fun a => a ++ b) acc)), f)
  | PCollect (CBad :: rest) i _ => (goto (PCollect rest (S i) None), f)
  | PCollect (CRaise k :: _) i _ => (goto (PClose (Some (SCollect i, k))), f)
  | PWrite chunks j => do_write c s f chunks j
  | PClose pending => do_close c s f pending
  | PRename =>
      match plan_find (w_plan c) SRename with
      | Some (k, _) => (goto (to_handler c (SRename, k)), f)
      | None =>
          match os_move (w_nt c) (chosen_call (w_nt c)) f (w_tmp c) (w_path c) with
          | Some f' => (goto (PDone None), f')
          | None => (goto (to_handler c (SRename, EExc)), f)
          end
      end
  | PExists e =>
      match plan_find (w_plan c) SExists with
      | Some (k, _) => (goto (PDone (Some (SExists, k))), f)
      | None => match fs_find f (w_tmp c) with
                | Some _ => (goto (PRemove e), f)
                | None => (goto (PDone (Some e)), f)
                end
      end
  | PRemove e =>
      match plan_find (w_plan c) SRemove with
      | Some (k, _) => (goto (PDone (Some (SRemove, k))), f)
      | None => match fs_find f (w_tmp c) with
                | Some _ => (goto (PDone (Some e)), fs_remove f (w_tmp c))
                | None => (goto (PDone (Some (SRemove, EExc))), f)      (* FileNotFoundError *)
                end
      end
  | PDone _ => (s, f)
  end.

Fixpoint wsteps (c : wcfg) (n : nat) (s : wstate) (f : fs) : wstate * fs :=
  match n with
  | O => (s, f)
  | S n' => let '(s', f') := wstep c s f in wsteps c n' s' f'
  end.

(* enough steps for any call to finish *)
Definition wbound (c : wcfg) : nat := 7 + length (w_colls c) + length (w_split c) + length (w_short c).
Definition wfinal (c : wcfg) (f : fs) : wstate * fs := wsteps c (wbound c) winit f.
Definition outcome (s : wstate) : option (option err) := match w_pc s with PDone r => Some r | _ => None end.

(* ---- several concurrent calls (threads or processes), interleaved at the I/O steps by a schedule ---- *)
Definition sys := list (wcfg * wstate).
Fixpoint sstep (i : nat) (ws : sys) (f : fs) {struct ws} : sys * fs :=
  match ws with
  | [] => ([], f)
  | (c, s) :: r =>
      match i with
      | O => let '(s', f') := wstep c s f in ((c, s') :: r, f')
      | S i' => let '(r', f') := sstep i' r f in ((c, s) :: r', f')
      end
  end.
Fixpoint srun (sched : list nat) (ws : sys) (f : fs) : sys * fs :=
  match sched with
  | [] => (ws, f)
  | i :: r => let '(ws', f') := sstep i ws f in srun r ws' f'
  end.
Definition sinit (cs : list wcfg) : sys := map (fun c => (c, winit)) cs.

(* ---- what the correspondence compares ---- *)
Definition observe (path : str) (f : fs) : list str * option bytes := (map fst f, fs_find f path).
Fixpoint strace (path : str) (sched : list nat) (ws : sys) (f : fs) : list (list str * option bytes) :=
  match sched with
  | [] => []
  | i :: r => let '(ws', f') := sstep i ws f in observe path f' :: strace path r ws' f'
  end.
Fixpoint tail_sched (i : nat) (ws : sys) : list nat :=
  match ws with
  | [] => []
  | (c, _) :: r => repeat i (wbound c) ++ tail_sched (S i) r
  end.
Definition c18_run_base (path : str) (cs : list wcfg) (f : fs) (sched : list nat)
  : list (list str * option bytes) * (list (option (option err)) * fs) :=
  let ws := sinit cs in
  let sc := sched ++ tail_sched 0 ws in
  let '(ws', f') := srun sc ws f in
  (strace path sc ws f, (map (fun cs => outcome (snd cs)) ws', f')).

(* ---- specification side: the big-step reading of the Python, "which error does the caller see" ----
   (no file system, no handler faults: the first error of open / the with-body / the rename, except that an
   error raised by close() in the with-exit replaces the one in flight).  The reading knows nothing of short
   writes (they shift the submission indices): the theorems that mention it assume [w_short c = []]. *)
Definition resume_close (c : wcfg) (pend : option err) : option err :=
  match plan_find (w_plan c) SClose with
  | Some (k, _) => Some (SClose, k)
  | None =>
      match pend with
      | Some e => Some e
      | None => match plan_find (w_plan c) SRename with Some (k, _) => Some (SRename, k) | None => None end
      end
  end.
Fixpoint resume_write (c : wcfg) (chunks : list bytes) (j : nat) : option err :=
  match chunks with
  | [] => resume_close c None
  | _ :: rest =>
      match plan_find (w_plan c) (SWrite j) with
      | Some (k, _) => resume_close c (Some (SWrite j, k))
      | None => resume_write c rest (S j)
      end
  end.
Fixpoint resume_collect (c : wcfg) (rest : list coutcome) (i : nat) (acc : option bytes) : option err :=
  match rest with
  | [] => match acc with
          | None => resume_close c (Some (SEncode, EExc))
          | Some data => resume_write c (mk_chunks (w_split c) data) 0
          end
  | CYield b :: r => resume_collect c r (S i) (option_map (fun a => a ++ b) acc)
  | CBad :: r => resume_collect c r (S i) None
  | CRaise k :: _ => resume_close c (Some (SCollect i, k))
  end.
Definition resume (c : wcfg) (p : pc) : option err :=
  match p with
  | POpen => match plan_find (w_plan c) SOpen with
             | Some (k, _) => Some (SOpen, k)
             | None => resume_collect c (w_colls c) 0 (Some [])
             end
  | PCollect rest i acc => resume_collect c rest i acc
  | PWrite chunks j => resume_write c chunks j
  | PClose pend => resume_close c pend
  | PRename => match plan_find (w_plan c) SRename with Some (k, _) => Some (SRename, k) | None => None end
  | PExists e | PRemove e => Some e
  | PDone r => r
  end.
(* None = the call returns *)
Definition wresult (c : wcfg) : option err := resume c POpen.

(* no fault is injected into the handler itself (the property quantifies over single faults) *)
Definition nhf (c : wcfg) : Prop :=
  plan_find (w_plan c) SExists = None /\ plan_find (w_plan c) SRemove = None.

(* nothing goes wrong anywhere *)
Definition fault_free (c : wcfg) : Prop :=
  plan_find (w_plan c) SOpen = None /\ plan_find (w_plan c) SClose = None /\ plan_find (w_plan c) SRename = None /\
  exists data, w_new c = Some data /\ forall j, (j <= length (w_split c))%nat -> plan_find (w_plan c) (SWrite j) = None.

(* no data is dropped: short writes are retried, or there are none *)
Definition keeps (c : wcfg) : Prop := w_retry c = true \/ w_short c = [].

(* two file systems hold the same files *)
Definition fs_same (f g : fs) : Prop := forall p, fs_find f p = fs_find g p.

(* the driver's entry: the path as spelled by the caller; the directory observed is the one it names *)
Definition at_base (c : wcfg) : wcfg :=
  {| w_path := base_of (w_path c); w_pid := w_pid c; w_tid := w_tid c; w_nt := w_nt c; w_buffered := w_buffered c;
     w_colls := w_colls c; w_split := w_split c; w_plan := w_plan c; w_short := w_short c; w_retry := w_retry c;
     w_catch_base := w_catch_base c |}.
Definition c18_run (path : str) (cs : list wcfg) (f : fs) (sched : list nat) :=
  c18_run_base (base_of path) (map at_base cs) f sched.

End TF.
