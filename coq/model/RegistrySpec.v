(* Specification side of C06/C07: what the theorems in props/C06.v and props/C07.v talk about.
   Definitions only.  The model of the code is model/Registry.v. *)
From V Require Import lib.PyBase model.Registry.
Open Scope N_scope.

Section Spec.
  Variable env : cid -> cbeh.

  (* collector c is registered and its recorded name list contains n *)
  Definition claims (r : reg) (c : cid) (n : str) : Prop := exists ns, In (c, ns) (c2n r) /\ In n ns.

  Definition registered (r : reg) (c : cid) : Prop := In c (map fst (c2n r)).

  (* a name is taken: claimed by a registered collector, or target_info while target info is configured *)
  Definition occupied (r : reg) (n : str) : Prop := (exists c, claims r c n) \/ (n = TI_NAME /\ ti r <> []).

  (* DESIGN Appendix A, plus: TargetInfo owns nothing but target_info.  It does not mention the collectors'
     behaviour: the names are those recorded when the collector was registered, whatever it describes now *)
  Definition Inv (r : reg) : Prop :=
    NoDup (map fst (n2c r)) /\ NoDup (map fst (c2n r)) /\
    (forall c ns, In (c, ns) (c2n r) -> NoDup ns /\ forall n, In n ns -> In (n, Coll c) (n2c r)) /\
    (forall n c, In (n, Coll c) (n2c r) -> exists ns, In (c, ns) (c2n r) /\ In n ns) /\
    (In (TI_NAME, TargetInfo) (n2c r) <-> ti r <> []) /\
    (forall n, In (n, TargetInfo) (n2c r) -> n = TI_NAME).

  (* while no collector changes: the recorded names are exactly those the collector describes *)
  Definition InvS (r : reg) : Prop :=
    Inv r /\ forall c ns, In (c, ns) (c2n r) -> ns = get_names (auto r) (env c).

  (* every sample name a collector yields is among the names it claimed *)
  Definition well_described (r : reg) (c : cid) : Prop :=
    forall f s, In f (c_fams (env c)) -> In s (f_samples f) -> claims r c (s_name s).

  (* ---- C07: the filter a restricted registry has to be ---- *)
  Definition keep (ns : list str) (s : sample) : bool := mem_str (s_name s) ns.

  Definition filtered (ns : list str) (f : family) : list family :=
    match filter (keep ns) (f_samples f) with
    | [] => []
    | ss => [mk_family (f_name f) (f_typ f) (f_help f) (f_unit f) ss]
    end.

  Definition filter_collection (ns : list str) (fams : list family) : list family := flat_map (filtered ns) fams.

  (* ---- C07: registration order and target info as a function of the calls and their outcomes alone ---- *)
  Definition spec_step (ks : list cid) (o : op) (out : option exn) : list cid :=
    match out, o with
    | None, Register c => if existsb (N.eqb c) ks then ks else ks ++ [c]
    | None, Unregister c => filter (fun k => negb (N.eqb k c)) ks
    | _, _ => ks
    end.

  Definition spec_ti (t : labels) (o : op) (out : option exn) : labels :=
    match out, o with
    | None, SetTargetInfo l => l
    | _, _ => t
    end.

  Definition spec_keys (ks : list cid) (tr : list (op * option exn)) : list cid :=
    fold_left (fun ks p => spec_step ks (fst p) (snd p)) tr ks.

  Definition spec_labels (t : labels) (tr : list (op * option exn)) : labels :=
    fold_left (fun t p => spec_ti t (fst p) (snd p)) tr t.

  Definition target_family (l : labels) : list family :=
    match l with
    | [] => []
    | _ => [mk_family S_target TInfo S_target_help [] [mk_sample TI_NAME l 1]]
    end.
End Spec.

(* the calls of a history and whether each raised; every step sees the collectors as they are at that moment *)
Fixpoint trace_dyn (r : reg) (eops : list ((cid -> cbeh) * op)) : list (op * option exn) :=
  match eops with
  | [] => []
  | (e, o) :: rest => (o, snd (step e r o)) :: trace_dyn (fst (step e r o)) rest
  end.
