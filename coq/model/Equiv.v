(* C12 - the composition: ONE single-process history of metric calls run through
     (mem) the in-memory back-end  = model/Metrics.v (metrics.py over values.MutexValue cells, C01), extended by
           the gauge multiprocess_mode (inc/dec raise RuntimeError in the two mostrecent modes, whatever the back-end);
     (mp)  the file-backed back-end = the SAME metric methods (metrics.py is written against the value-store
           interface only) over cells that live in the files of one process: every value object is bound to the
           file  {typ}[_{mode}]_{pid}.db  (values.py, prefix_of / fname of model/Values.v) under the key
           mmap_key(metric_name, sample_name, labels, help)  (model/Multiproc.v key; labels sorted by name as
           json.dumps(sort_keys=True) leaves them), is initialised by reading that key (fs_read: (0.0, 0.0) when the
           key is new, the stored pair otherwise - MmapedValue.__reset) and every inc/set writes the new pair through
           (fs_write).  The cached _value of a live MmapedValue equals its file cell (C09_continues_from_file), so the
           model reads the cell instead of keeping the cache; proofs/EquivProofs.v shows each cell operation here is
           the effect of Values.step on the directory.
           Collection = MultiProcessCollector.collect = Multiproc.merge_named over the files of the directory.
   norm_mem / norm_mp remove exactly the intended differences named by the property: _created and exemplars are not
   in either model; the pid label on all/liveall gauges (norm_mp); sample order (the statement is up to permutation);
   mostrecent gauges that were never set (norm_mem, from the log of accepted set() calls).
   remove()/clear() in multiprocess mode only forget the child object: the file keeps the series and a re-created
   child resumes from it (the library warns that removal is not implemented) - modelled as it is.
   Definitions only.  Parametric in the float type. *)
From V Require Import lib.PyBase.
From V Require model.Multiproc model.Values model.Gateway.
From V Require Import model.Metrics.
Open Scope N_scope.

Definition T_counter := Eval compute in s2l "counter".
Definition T_summary := Eval compute in s2l "summary".
Definition T_other := Eval compute in s2l "untyped".
Definition M_all := Eval compute in s2l "all".

Definition typ_of (k : mkind) : str :=
  match k with
  | KCounter => T_counter
  | KGauge => Multiproc.S_gauge
  | KSummary => T_summary
  | KHistogram => Multiproc.S_histogram
  | _ => T_other
  end.

(* the four metric types that use the value store *)
Definition supported (k : mkind) : bool :=
  match k with KCounter | KGauge | KSummary | KHistogram => true | _ => false end.

(* per family: Gauge(multiprocess_mode=...) and the documentation string (part of the mmap key) *)
Record fmeta := mkMeta { fm_mode : str; fm_help : str }.

Definition is_mr (mode : str) : bool := Multiproc.is_mode Multiproc.M_mostrecent Multiproc.M_livemostrecent mode.
Definition is_all (mode : str) : bool := Multiproc.is_mode M_all Multiproc.M_liveall mode.
Definition GAUGE_MODES : list str :=
  [M_all; Multiproc.M_liveall; Multiproc.M_min; Multiproc.M_livemin; Multiproc.M_max; Multiproc.M_livemax;
   Multiproc.M_sum; Multiproc.M_livesum; Multiproc.M_mostrecent; Multiproc.M_livemostrecent].

(* '{prefix}_{pid}.db' with prefix = typ + '_' + mode for gauges, typ otherwise *)
Definition prefix_str (p : Values.prefix) : str :=
  if str_eqb (fst p) Multiproc.S_gauge then fst p ++ Multiproc.US :: snd p else fst p.
Definition fname_str (fn : Values.fname) : str := prefix_str (fst fn) ++ Multiproc.US :: snd fn ++ Multiproc.S_db.

Definition K0 : Multiproc.key := Multiproc.mkKey [] [] [] [].
Definition fname_of (k : mkind) (mode pid : str) : Values.fname :=
  (Values.prefix_of (Values.mkParams (typ_of k) mode K0), pid).

Definition logkey := (nat * key)%type.
Definition lk_eqb (a b : logkey) : bool := Nat.eqb (fst a) (fst b) && key_eqb (snd a) (snd b).
Definition in_log (log : list logkey) (f : nat) (k : key) : bool := existsb (lk_eqb (f, k)) log.

Section Equiv.
  Variable F : Type.
  Variables fzero fone finf : F.
  Variable fadd : F -> F -> F.
  Variable fneg : F -> F.
  Variables flt fle feqb : F -> F -> bool.
  Variable of_Z : Z -> res F.
  Variable zlef : Z -> F -> bool.
  Variable parse_le : str -> F.          (* float(str) on an le label value *)
  Variable fmt_le : F -> str.            (* utils.floatToGoString *)

  Notation mop := (mop F).
  Notation mcall := (mcall F).
  Notation amount := (amount F).
  Notation MSTEP := (mstep fzero fadd fneg flt fle of_Z zlef).
  Notation to_F := (to_F of_Z).
  Notation aneg := (aneg fneg).
  Notation alt0 := (alt0 fzero flt).
  Notation ale := (ale fle zlef).
  Notation fs := (Values.fs F).

  (* Gauge.inc / Gauge.dec: `if self._is_most_recent: raise RuntimeError` comes first *)
  Definition mr_blocked (k : mkind) (mode : str) (m : mop) : bool :=
    match k, m with
    | KGauge, Inc _ | KGauge, Dec _ => is_mr mode
    | _, _ => false
    end.

  Definition is_set (m : mop) : bool := match m with SetV _ => true | _ => false end.

  (* the child a call updates: its label values, [] for the metric object itself *)
  Definition target_key (names : list str) (a : addr) : option key :=
    match resolve names a with
    | Ok (Some k) => Some k
    | Ok None => if is_nil names then Some [] else None
    | Err _ => None
    end.

  (* ================= (mem) the in-memory back-end ================= *)
  (* m_log: the children of gauges that accepted a set() since they were created *)
  Record mem := mkMem { m_reg : mregistry F; m_log : list logkey }.

  Definition mem_step (metas : list fmeta) (s : mem) (o : mcall) : mem * res unit :=
    match o with
    | CUpd f a m =>
        match nth_error (m_reg s) f, nth_error metas f with
        | Some fam, Some me =>
            if mr_blocked (f_kind fam) (fm_mode me) m then
              (* metric.labels(...) runs, then inc/dec raises *)
              let (r', out) := MSTEP (m_reg s) (CLabels f a) in
              (mkMem r' (m_log s), match out with Ok _ => Err RuntimeError | Err e => Err e end)
            else
              let (r', out) := MSTEP (m_reg s) o in
              let log' := match out, f_kind fam, is_set m, target_key (f_labelnames fam) a with
                          | Ok _, KGauge, true, Some k => (f, k) :: m_log s
                          | _, _, _, _ => m_log s
                          end in
              (mkMem r' log', out)
        | _, _ => (s, Err IndexError)
        end
    | CLabels _ _ => let (r', out) := MSTEP (m_reg s) o in (mkMem r' (m_log s), out)
    | CRemove f vs =>
        let (r', out) := MSTEP (m_reg s) o in
        (mkMem r' (match out with
                   | Ok _ => filter (fun lk => negb (lk_eqb (f, vs) lk)) (m_log s)
                   | Err _ => m_log s
                   end), out)
    | CClear f =>
        let (r', out) := MSTEP (m_reg s) o in
        (mkMem r' (match out with
                   | Ok _ => filter (fun lk => negb (Nat.eqb f (fst lk))) (m_log s)
                   | Err _ => m_log s
                   end), out)
    end.

  (* a history: every call comes with the reading time.time() gives during it *)
  Definition mem_run (metas : list fmeta) (s : mem) (ops : list (F * mcall)) : mem :=
    fold_left (fun s o => fst (mem_step metas s (snd o))) ops s.

  Definition mem_init (fams : mregistry F) : mem := mkMem fams [].

  (* ================= (mp) the file-backed back-end ================= *)
  (* what a metric object keeps besides its value objects: the label tuples of its children *)
  Definition shape := mfamily F unit.
  Record mp := mkMp { p_shape : list shape; p_fs : fs }.

  Definition shape_of {C} (fam : mfamily F C) : shape :=
    mkMFamily (f_kind fam) (f_name fam) (f_labelnames fam) (f_bounds fam) (f_states fam) tt
              (map (fun kc => (fst kc, tt)) (f_children fam)).

  (* mmap_key: dict(zip(labelnames, labelvalues)) dumped with sort_keys=True *)
  Definition lab (names : list str) (lv : key) : Multiproc.labels := Gateway.sort_items (combine names lv).
  (* a bucket: labelnames + ('le',), labelvalues + (floatToGoString(bound),) *)
  Definition blab (names : list str) (lv : key) (b : F) : Multiproc.labels :=
    Gateway.sort_items (combine names lv ++ [(Multiproc.S_le, fmt_le b)]).

  Section Keys.
    Context {C : Type}.
    Variable fam : mfamily F C.
    Variable me : fmeta.
    Definition ckey (sname : str) (ls : Multiproc.labels) : Multiproc.key :=
      Multiproc.mkKey (f_name fam) sname ls (fm_help me).
    Definition k_total (lv : key) := ckey (f_name fam ++ SUF_total) (lab (f_labelnames fam) lv).
    Definition k_gauge (lv : key) := ckey (f_name fam) (lab (f_labelnames fam) lv).
    Definition k_count (lv : key) := ckey (f_name fam ++ SUF_count) (lab (f_labelnames fam) lv).
    Definition k_sum (lv : key) := ckey (f_name fam ++ SUF_sum) (lab (f_labelnames fam) lv).
    Definition k_bucket (lv : key) (b : F) := ckey (f_name fam ++ SUF_bucket) (blab (f_labelnames fam) lv b).

    (* the value objects _metric_init creates, in creation order *)
    Definition cell_keys (lv : key) : list Multiproc.key :=
      match f_kind fam with
      | KCounter => [k_total lv]
      | KGauge => [k_gauge lv]
      | KSummary => [k_count lv; k_sum lv]
      | KHistogram => k_sum lv :: map (k_bucket lv) (f_bounds fam)
      | _ => []
      end.

    Definition fam_file (pid : str) : Values.fname := fname_of (f_kind fam) (fm_mode me) pid.
  End Keys.

  (* the cached _value of the value object bound to (fn, k) *)
  Definition rd (d : fs) (fn : Values.fname) (k : Multiproc.key) : F :=
    match Values.fs_cell F d fn k with Some c => fst c | None => fzero end.
  Definition wr (d : fs) (fn : Values.fname) (k : Multiproc.key) (v ts : F) : fs := Values.fs_write F fzero d fn k (v, ts).
  (* MmapedValue(...): open the file of the prefix if this process has not yet, read (and so initialise) the key *)
  Definition mp_new (d : fs) (fn : Values.fname) (k : Multiproc.key) : fs :=
    fst (Values.fs_read F fzero (Values.fs_open F d fn) fn k).
  Definition mp_create (d : fs) (fn : Values.fname) (ks : list Multiproc.key) : fs :=
    fold_left (fun d k => mp_new d fn k) ks d.
  (* MmapedValue.inc *)
  Definition mp_inc (d : fs) (fn : Values.fname) (k : Multiproc.key) (x : F) : fs := wr d fn k (fadd (rd d fn k) x) fzero.

  (* Histogram.observe: the first bound with amount <= bound *)
  Fixpoint first_le (a : amount) (bs : list F) : option F :=
    match bs with
    | [] => None
    | b :: r => if ale a b then Some b else first_le a r
    end.

  (* the update methods on an observable metric whose cells are in file fn *)
  Definition mp_apply (fam : shape) (me : fmeta) (pid : str) (now : F) (d : fs) (lv : key) (m : mop) : fs * res unit :=
    let fn := fam_file fam me pid in
    match f_kind fam, m with
    | KCounter, Inc a =>
        if alt0 a then (d, Err ValueError)
        else match to_F a with
             | Ok x => (mp_inc d fn (k_total fam me lv) x, Ok tt)
             | Err e => (d, Err e)
             end
    | KCounter, Reset => (wr d fn (k_total fam me lv) fzero fzero, Ok tt)
    | KGauge, Inc a =>
        match to_F a with Ok x => (mp_inc d fn (k_gauge fam me lv) x, Ok tt) | Err e => (d, Err e) end
    | KGauge, Dec a =>
        match to_F (aneg a) with Ok x => (mp_inc d fn (k_gauge fam me lv) x, Ok tt) | Err e => (d, Err e) end
    | KGauge, SetV a =>
        match to_F a with
        | Ok x => (wr d fn (k_gauge fam me lv) x
                      (Values.ts_or_zero F fzero feqb (if is_mr (fm_mode me) then Some now else None)), Ok tt)
        | Err e => (d, Err e)
        end
    | KSummary, Observe a =>
        match to_F a with
        | Ok x => (mp_inc (mp_inc d fn (k_sum fam me lv) x) fn (k_count fam me lv) fone, Ok tt)
        | Err e => (d, Err e)
        end
    | KHistogram, Observe a =>
        match to_F a with
        | Ok x =>
            let d1 := mp_inc d fn (k_sum fam me lv) x in
            (match first_le a (f_bounds fam) with
             | Some b => mp_inc d1 fn (k_bucket fam me lv b) fone
             | None => d1
             end, Ok tt)
        | Err e => (d, Err e)
        end
    | _, _ => (d, Err AttributeError)
    end.

  (* labels(): `if labelvalues not in self._metrics: self._metrics[labelvalues] = <new child>` *)
  Definition mp_ensure (fam : shape) (me : fmeta) (pid : str) (d : fs) (k : key) : shape * fs :=
    match d_find key_eqb (f_children fam) k with
    | Some _ => (fam, d)
    | None => (with_children fam (f_children fam ++ [(k, tt)]), mp_create d (fam_file fam me pid) (cell_keys fam me k))
    end.

  Definition mp_step (metas : list fmeta) (pid : str) (s : mp) (now : F) (o : mcall) : mp * res unit :=
    match o with
    | CUpd f a m =>
        match nth_error (p_shape s) f, nth_error metas f with
        | Some fam, Some me =>
            match resolve (f_labelnames fam) a with
            | Err e => (s, Err e)
            | Ok None =>
                if mr_blocked (f_kind fam) (fm_mode me) m then (s, Err RuntimeError)
                else if is_nil (f_labelnames fam) then
                  let (d', out) := mp_apply fam me pid now (p_fs s) [] m in (mkMp (p_shape s) d', out)
                else (s, parent_outcome false (f_kind fam) m)
            | Ok (Some k) =>
                let (fam', d1) := mp_ensure fam me pid (p_fs s) k in
                let sh' := set_nth (p_shape s) f fam' in
                if mr_blocked (f_kind fam) (fm_mode me) m then (mkMp sh' d1, Err RuntimeError)
                else let (d2, out) := mp_apply fam me pid now d1 k m in (mkMp sh' d2, out)
            end
        | _, _ => (s, Err IndexError)
        end
    | CLabels f a =>
        match nth_error (p_shape s) f, nth_error metas f with
        | Some fam, Some me =>
            match resolve (f_labelnames fam) a with
            | Err e => (s, Err e)
            | Ok None => (s, Ok tt)
            | Ok (Some k) =>
                let (fam', d1) := mp_ensure fam me pid (p_fs s) k in
                (mkMp (set_nth (p_shape s) f fam') d1, Ok tt)
            end
        | _, _ => (s, Err IndexError)
        end
    | CRemove f vs =>
        (* warns, then `del self._metrics[labelvalues]`: the file keeps the key *)
        match nth_error (p_shape s) f with
        | None => (s, Err IndexError)
        | Some fam =>
            if is_nil (f_labelnames fam) then (s, Err ValueError)
            else if negb (Nat.eqb (length vs) (length (f_labelnames fam))) then (s, Err ValueError)
            else (mkMp (set_nth (p_shape s) f (with_children fam (d_remove key_eqb (f_children fam) vs))) (p_fs s), Ok tt)
        end
    | CClear f =>
        match nth_error (p_shape s) f with
        | None => (s, Err IndexError)
        | Some fam =>
            if is_nil (f_labelnames fam) then
              match f_kind fam with KInfo | KEnum => (s, Ok tt) | _ => (s, Err AttributeError) end
            else (mkMp (set_nth (p_shape s) f (with_children fam [])) (p_fs s), Ok tt)
        end
    end.

  Definition mp_run (metas : list fmeta) (pid : str) (s : mp) (ops : list (F * mcall)) : mp :=
    fold_left (fun s o => fst (mp_step metas pid s (fst o) (snd o))) ops s.

  (* constructing the metrics, in order: an unlabelled metric creates its value objects at once *)
  Fixpoint mp_init_fs (pid : str) (fams : list shape) (metas : list fmeta) (d : fs) : fs :=
    match fams, metas with
    | fam :: fr, me :: mr =>
        mp_init_fs pid fr mr
          (if is_nil (f_labelnames fam) then mp_create d (fam_file fam me pid) (cell_keys fam me []) else d)
    | _, _ => d
    end.
  Definition mp_init (metas : list fmeta) (pid : str) (fams : mregistry F) : mp :=
    let sh := map shape_of fams in mkMp sh (mp_init_fs pid sh metas []).

  (* ================= collection ================= *)
  Definition collect_mem (fam : mfamily F (child F)) : list (msample F) := family_samples fzero fone fle fam.

  (* MultiProcessCollector.collect: glob('*.db') then merge; the files in creation order *)
  Definition named_files (d : fs) : list (str * list (Multiproc.key * (F * F))) :=
    map (fun fc => (fname_str (fst fc), snd fc)) d.
  Definition collect_mp (d : fs) : list (Multiproc.family F) :=
    Multiproc.merge_named F fzero fadd flt feqb parse_le fmt_le (named_files d).

  Definition fam_name (fm : Multiproc.family F) : str := fst (fst (fst fm)).
  (* the samples of the family called n ([] when the collector reports no such family) *)
  Definition mp_family (n : str) (M : list (Multiproc.family F)) : assoc Multiproc.skey F :=
    match find (fun fm => str_eqb n (fam_name fm)) M with Some fm => snd fm | None => [] end.

  (* ================= norm: the intended differences ================= *)
  (* a count cell holds 0.0 + 1 + ... + 1 *)
  Definition fcount (n : N) : F := N.iter n (fun x => fadd x fone) fzero.

  Definition nsample := (Multiproc.skey * F)%type.       (* ((sample name, labels), value) *)
  Definition sval_F (v : sval F) : F := match v with VF x => x | VI z => fcount (Z.to_N z) end.
  Definition mem_ns (s : msample F) : nsample :=
    ((ms_name s, ms_labels s ++ match ms_le s with Some b => [(Multiproc.S_le, fmt_le b)] | None => [] end),
     sval_F (ms_val s)).

  (* in-process: a child of a mostrecent gauge that never accepted set() is dropped *)
  Definition keep_child (me : fmeta) (log : list logkey) (f : nat) (k : mkind) (lv : key) : bool :=
    match k with KGauge => negb (is_mr (fm_mode me)) || in_log log f lv | _ => true end.

  Definition norm_mem (me : fmeta) (log : list logkey) (f : nat) (fam : mfamily F (child F)) : list nsample :=
    let cs := child_samples fzero fone fle (f_name fam) (f_bounds fam) (f_states fam) in
    if is_nil (f_labelnames fam) then
      (if keep_child me log f (f_kind fam) [] then map mem_ns (cs [] (f_solo fam)) else [])
    else flat_map (fun kc => if keep_child me log f (f_kind fam) (fst kc)
                             then map mem_ns (cs (combine (f_labelnames fam) (fst kc)) (snd kc)) else [])
                  (f_children fam).

  (* multiprocess: the pid label of an all/liveall gauge is dropped *)
  Definition norm_mp (k : mkind) (me : fmeta) (ss : assoc Multiproc.skey F) : list nsample :=
    match k with
    | KGauge =>
        if is_all (fm_mode me)
        then map (fun kv => ((fst (fst kv), filter Multiproc.not_pid (snd (fst kv))), snd kv)) ss
        else ss
    | _ => ss
    end.
End Equiv.

(* ================= the statement: equal as multisets of series, values numerically ================= *)
From Coq Require Import Permutation.
Section Statement.
  Variable F : Type.
  Variable feqb : F -> F -> bool.
  (* numerically equal, NaN equal to NaN *)
  Definition feq (a b : F) : Prop := feqb a b = true \/ (feqb a a = false /\ feqb b b = false).
  (* the same series (labels are a dict: up to order) with the same value *)
  Definition same_sample (a b : Multiproc.skey * F) : Prop :=
    fst (fst a) = fst (fst b) /\ Permutation (snd (fst a)) (snd (fst b)) /\ feq (snd a) (snd b).
  Definition sim (A B : list (Multiproc.skey * F)) : Prop := exists A', Permutation A A' /\ Forall2 same_sample A' B.
End Statement.
