#!/bin/bash
# quick tier of every claimed check for several seeds: any FAIL on the unchanged tree is a false alarm to triage
cd "$(dirname "$0")/.."
./build.sh || exit 1
for seed in ${SEEDS:-1 2 3 4 5}; do
  for p in $(python3 -c "import json; print(' '.join(c['property_id'] for c in json.load(open('MANIFEST.json'))['checks']))"); do
    VERIF_SEED=$seed ./check $p --tier quick 2>&1 | grep -E "^(OK|FAIL|VIOLATION)" | cut -c1-220
  done
done
