#!/usr/bin/env python3
"""Writes seeded/README.md: which checks catch which seeded changes (from seeded/*/meta.json) and which behaviour-preserving
refactorings (seeded/harmless/*/meta.json) stay quiet."""
import glob, json, os
ROOT = os.path.dirname(os.path.dirname(os.path.abspath(__file__)))
rows, stats = [], {}
for d in sorted(glob.glob(ROOT + '/seeded/C*/')):
    m = json.load(open(d + 'meta.json'))
    name = os.path.basename(d.rstrip('/'))
    rnd = 'round 6' if '-r6-' in name else 'round 5' if '-r5-' in name else 'round 4' if '-r4-' in name else 'round 3' if '-r3-' in name else 'round 2' if '-r2-' in name else 'round 1'
    checks = m.get('checks', {})
    if m.get('superseded'):
        caught, missed = ['(superseded: ' + m['superseded'][:160] + ')'], []
        stats.setdefault(rnd, [0, 0, 0])[2] += 1
    elif m.get('applies') is False:
        caught, missed = ['(no longer applies: the lines it edits were changed by a later fix: commit)'], []
        stats.setdefault(rnd, [0, 0, 0])[2] += 1
    else:
        caught = [c + (' (no-failing-input-found)' if 'no-failing' in v.get('line', '') else '') for c, v in checks.items() if v.get('exit') == 1]
        missed = [c for c, v in checks.items() if v.get('exit') == 0]
        st = stats.setdefault(rnd, [0, 0, 0])
        st[0 if caught else 1] += 1
    rows.append((name, m.get('summary', '').replace('|', '/').replace('\n', ' ')[:230], m.get('needs', '').replace('|', '/').replace('\n', ' ')[:160],
                 ', '.join(caught) or '-', ', '.join(missed) or '-'))
hrows = []
for d in sorted(glob.glob(ROOT + '/seeded/harmless/*/')):
    m = json.load(open(d + 'meta.json'))
    name = os.path.basename(d.rstrip('/'))
    checks = m.get('checks', {})
    quiet = [c for c, v in checks.items() if v.get('exit') == 0]
    alarm = [c for c, v in checks.items() if v.get('exit') != 0]
    hrows.append((name, m.get('summary', '').replace('|', '/').replace('\n', ' ')[:260], ', '.join(m.get('files', []))[:90],
                  ', '.join(quiet) or '-', ', '.join(alarm) or '-'))
with open(ROOT + '/seeded/README.md', 'w') as f:
    f.write('# Seeded changes\n\nEach directory holds `patch.diff` (a change to prometheus/client_python written by a fresh sub-agent that saw only the\n'
            'property text and a scratch worktree), `demo.py` (fails with the change, passes without it) and `meta.json` (what it needs to\n'
            'manifest, what was verified, and the outcome of the quick checks run against it in a scratch worktree of /repo HEAD:\n'
            '`VERIF_REPO=<worktree with the patch> ./check Cnn`; nothing is ever applied to /repo itself; `tools/seed_recheck.py` re-runs all of them,\n'
            '`tools/mutchk.sh <id> [checks]` one of them).  All were confirmed: the 320 tests pass with the change, the demo fails with it and passes\n'
            'without it.  The table shows the state of the checks at the last re-run (`rechecked_at` in meta.json).\n\n')
    f.write('Rounds: ' + '; '.join('%s: %d caught, %d missed, %d no longer applicable' % (k, v[0], v[1], v[2]) for k, v in sorted(stats.items())) + '.\n\n'
            'How the rounds were used: the changes of a round that the checks of that time MISSED were handed (as examples of an input class,\n'
            'never to be special-cased) to a strengthening pass that widened generators, observations, direct oracles and, where the model\'s\n'
            'domain was too narrow, the model and its theorems; the next round was written by new sub-agents told to avoid everything the earlier\n'
            'rounds had done.  Misses per round before strengthening: round 1: 9 of 54, round 2: 9 of 57, round 3: 13 of 57, round 4: 6 of 57, round 5: 7 of 57,\n'
            'round 6: 10 of 38 (each later round aims at rarer inputs and less obvious clauses; round 6 was told what all earlier rounds had done).\n'
            'Round-6 changes filed under C08/C10/C11/C12 that are crash-point or thread-interleaving defects of the mmap store / value classes are\n'
            'caught by C11 / C02 / C08, whose properties they violate, and stay listed as not caught by the property they were filed under.  The one change still listed as missed by its own property\'s check (C02-r2-2, a header\n'
            'published before the entry bytes) is a crash-point/reader-interleaving defect of the mmap store and is caught by C11, whose property it violates.\n\n'
            '| Change | What it does | Needs | Caught by | Not caught by |\n|---|---|---|---|---|\n')
    for r in rows:
        f.write('| %s | %s | %s | %s | %s |\n' % r)
    f.write('\n# Behaviour-preserving refactorings (no alarm expected)\n\n`seeded/harmless/<id>/` holds `patch.diff` and `why.txt` (the argument that behaviour is '
            'unchanged) of refactorings written by fresh sub-agents that saw only the property text (restructured control flow, extracted helpers, '
            'equivalent library calls ...).  `tools/harmless_run.py` runs the quick check of the property and of every property anchored in a touched '
            'file against a scratch worktree with the patch.  An alarm here would be a false alarm.\n\n'
            '| Refactoring | What it does | Files | Quiet | Alarm |\n|---|---|---|---|---|\n')
    for r in hrows:
        f.write('| %s | %s | %s | %s | %s |\n' % r)
print(len(rows), 'rows;', sum(1 for r in rows if r[3] == '-'), 'not caught by any check run against them;', len(hrows), 'harmless,',
      sum(1 for r in hrows if r[4] != '-'), 'with an alarm')
