#!/usr/bin/env python3
"""Writes seeded/README.md: which checks catch which seeded changes (from seeded/*/meta.json)."""
import glob, json, os
rows = []
for d in sorted(glob.glob('/verif/seeded/*/')):
    m = json.load(open(d + 'meta.json'))
    name = os.path.basename(d.rstrip('/'))
    checks = m.get('checks', {})
    caught = [c + (' (no-failing-input-found)' if 'no-failing' in v.get('line', '') else '') for c, v in checks.items() if v.get('exit') == 1]
    missed = [c for c, v in checks.items() if v.get('exit') == 0]
    rows.append((name, m.get('summary', '').replace('|', '/').replace('\n', ' ')[:230], m.get('needs', '').replace('|', '/').replace('\n', ' ')[:160],
                 ', '.join(caught) or '-', ', '.join(missed) or '-'))
with open('/verif/seeded/README.md', 'w') as f:
    f.write('# Seeded changes\n\nEach directory holds `patch.diff` (a change to prometheus/client_python written by a fresh sub-agent that saw only the\n'
            'property text), `demo.py` (fails with the change, passes without it) and `meta.json` (what it needs to manifest, what was\n'
            'verified, and the outcome of the quick checks run against it: `git -C /repo apply patch.diff; ./check Cnn; git -C /repo checkout -- .`).\n'
            'All were confirmed in a scratch worktree: the 320 tests pass with the change, the demo fails with it and passes without it.\n\n'
            '| Change | What it does | Needs | Caught by | Not caught by |\n|---|---|---|---|---|\n')
    for r in rows:
        f.write('| %s | %s | %s | %s | %s |\n' % r)
print(len(rows), 'rows;', sum(1 for r in rows if r[3] == '-'), 'not caught by any check run against them')
