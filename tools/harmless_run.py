#!/usr/bin/env python3
"""harmless_run.py [-j N] <ID> ... : for behaviour-preserving refactorings produced by fresh sub-agents in /tmp/h_<ID>/out/<k>/
(patch.diff, why.txt, meta.json): confirms the library tests pass with the patch, runs the quick check of the property and of
every property anchored in a touched file against a scratch worktree with the patch (VERIF_REPO), and stores the change with the
outcome under /verif/seeded/harmless/<ID>-<k>/.  An alarm here is a FALSE alarm to triage (or a refactoring that is not harmless)."""
import json, os, shutil, subprocess, sys, threading, queue
ROOT = os.path.dirname(os.path.dirname(os.path.abspath(__file__)))
args = sys.argv[1:]
J = 5
if '-j' in args:
    J = int(args[args.index('-j') + 1]); del args[args.index('-j'):args.index('-j') + 2]
anch = {}
for l in open(ROOT + '/properties.jsonl'):
    p = json.loads(l)
    anch[p['id']] = set(p['anchors']['files'])


def sh(cmd):
    p = subprocess.run(cmd, shell=True, stdout=subprocess.PIPE, stderr=subprocess.STDOUT, text=True)
    return p.returncode, p.stdout


q = queue.Queue()
for pid in args:
    src = '/tmp/h_%s/out' % pid
    for k in sorted(os.listdir(src)):
        if os.path.exists('%s/%s/patch.diff' % (src, k)):
            q.put((pid, k))
lock = threading.Lock()


def worker(n):
    wt = '/tmp/harmpool_%d' % n
    sh('git -C /repo worktree remove --force %s; rm -rf %s' % (wt, wt))
    rc, out = sh('git -C /repo worktree add -q --detach %s HEAD' % wt)
    assert rc == 0, out
    try:
        while True:
            try:
                pid, k = q.get_nowait()
            except queue.Empty:
                return
            d = '/tmp/h_%s/out/%s' % (pid, k)
            sh('git -C %s checkout -q -- . && git -C %s clean -fdq' % (wt, wt))
            rc, out = sh('git -C %s apply %s/patch.diff' % (wt, d))
            meta = json.load(open(d + '/meta.json')) if os.path.exists(d + '/meta.json') else {}
            meta['property'] = pid
            if rc != 0:
                meta['applies'] = False
                res = {}
            else:
                meta['applies'] = True
                rc, out = sh('cd %s && /venv/bin/python -m pytest -q -p no:cacheprovider -x tests 2>&1 | tail -2' % wt)
                meta['tests_pass_with_change'] = ' passed' in out and 'failed' not in out
                rc, files = sh('git -C %s diff --name-only' % wt)
                touched = set(files.split())
                checks = [pid] + sorted(c for c in anch if c != pid and anch[c] & touched)
                res = {}
                for c in checks:
                    rc, out = sh('cd %s && VERIF_REPO=%s VERIF_SEED=0 ./check %s --tier quick' % (ROOT, wt, c))
                    line = [l for l in out.split('\n') if l.startswith('VIOLATION')]
                    res[c] = dict(exit=rc, line=line[0][:300] if line else '', tail=out.strip().split('\n')[-1][:200])
            meta['checks'] = res
            dest = '%s/seeded/harmless/%s-%s' % (ROOT, pid, k)
            os.makedirs(dest, exist_ok=True)
            for f in ('patch.diff', 'why.txt'):
                if os.path.exists(d + '/' + f):
                    shutil.copy(d + '/' + f, dest)
            json.dump(meta, open(dest + '/meta.json', 'w'), indent=1)
            with lock:
                print(pid, k, 'applies' if meta['applies'] else 'NOAPPLY', 'tests' if meta.get('tests_pass_with_change') else 'TESTS-FAIL',
                      ' '.join('%s:%s' % (c, 'quiet' if r['exit'] == 0 else 'ALARM') for c, r in res.items()), flush=True)
    finally:
        sh('git -C /repo worktree remove --force %s; rm -rf %s' % (wt, wt))


ts = [threading.Thread(target=worker, args=(n,)) for n in range(J)]
[t.start() for t in ts]
[t.join() for t in ts]
sh('git -C /repo worktree prune')
