#!/bin/bash
# runs every claimed check's thorough tier in sequence (used with `vp run`); prints one summary line per property
cd "$(dirname "$0")/.."
./build.sh || exit 1
for p in $(python3 -c "import json; print(' '.join(c['property_id'] for c in json.load(open('MANIFEST.json'))['checks']))"); do
  /usr/bin/time -f "$p wall=%es" ./check $p --tier thorough 2>&1 | grep -E "^(OK|FAIL|VIOLATION|KNOWN-FINDING|C[0-9]+ wall)" | cut -c1-300
done
