#!/bin/bash
# runs every claimed check's thorough tier (used with `vp run`), LANES at a time; prints one summary line per property
cd "$(dirname "$0")/.."
./build.sh || exit 1
{ if [ -n "$PROPS" ]; then echo $PROPS | tr ' ' '\n'; else python3 -c "import json; print('\n'.join(c['property_id'] for c in json.load(open('MANIFEST.json'))['checks']))"; fi; } |
  xargs -P "${LANES:-2}" -I{} sh -c '/usr/bin/time -f "{} wall=%es" ./check {} --tier thorough 2>&1 | grep -E "^(OK|FAIL|VIOLATION|KNOWN-FINDING|DISAGREEMENT|C[0-9]+ wall)" | cut -c1-400'
