#!/usr/bin/env python3
"""seed_recheck.py [-j N] [ids...] - re-runs the quick check(s) against every stored seeded change (seeded/<id>/patch.diff),
each in a scratch worktree of /repo HEAD (VERIF_REPO), and rewrites the 'checks' entry of its meta.json.
Nothing is applied to /repo; the worktrees are removed at the end."""
import json, os, subprocess, sys, threading, queue

ROOT = os.path.dirname(os.path.dirname(os.path.abspath(__file__)))
args = sys.argv[1:]
J = 6
if '-j' in args:
    J = int(args[args.index('-j') + 1]); del args[args.index('-j'):args.index('-j') + 2]
ids = args or sorted(d for d in os.listdir(ROOT + '/seeded') if os.path.exists('%s/seeded/%s/patch.diff' % (ROOT, d)))


def sh(cmd):
    p = subprocess.run(cmd, shell=True, stdout=subprocess.PIPE, stderr=subprocess.STDOUT, text=True)
    return p.returncode, p.stdout


q = queue.Queue()
for i in ids:
    q.put(i)
lock = threading.Lock()


def worker(k):
    wt = '/tmp/seedpool_%d' % k
    sh('git -C /repo worktree remove --force %s; rm -rf %s' % (wt, wt))
    rc, out = sh('git -C /repo worktree add -q --detach %s HEAD' % wt)
    assert rc == 0, out
    try:
        while True:
            try:
                i = q.get_nowait()
            except queue.Empty:
                return
            d = '%s/seeded/%s' % (ROOT, i)
            meta = json.load(open(d + '/meta.json'))
            if meta.get('superseded'):
                with lock:
                    print(i, 'superseded', flush=True)
                continue
            prop = meta.get('property') or i.split('-')[0]
            checks = [prop] + [c for c in meta.get('checks', {}) if c != prop]
            sh('git -C %s checkout -q -- . && git -C %s clean -fdq' % (wt, wt))
            rc, out = sh('git -C %s apply %s/patch.diff' % (wt, d))
            res = {}
            if rc != 0:
                meta['applies'] = False
                meta['apply_note'] = out[-300:]
            else:
                meta['applies'] = True
                for c in checks:
                    rc, out = sh('cd %s && VERIF_REPO=%s VERIF_SEED=0 ./check %s --tier quick' % (ROOT, wt, c))
                    line = [l for l in out.split('\n') if l.startswith('VIOLATION')]
                    res[c] = dict(exit=rc, line=line[0] if line else '', tail=out.strip().split('\n')[-1][:200])
                    if rc != 0 and c == prop:
                        break
                meta['checks'] = res
            meta['rechecked_at'] = sh('git -C %s rev-parse --short HEAD' % ROOT)[1].strip()
            json.dump(meta, open(d + '/meta.json', 'w'), indent=1)
            with lock:
                print(i, 'applies' if meta['applies'] else 'DOES-NOT-APPLY',
                      ' '.join('%s:%s' % (c, 'caught' if r['exit'] else 'MISSED') for c, r in res.items()), flush=True)
    finally:
        sh('git -C /repo worktree remove --force %s; rm -rf %s' % (wt, wt))


ts = [threading.Thread(target=worker, args=(k,)) for k in range(J)]
[t.start() for t in ts]
[t.join() for t in ts]
sh('git -C /repo worktree prune')
