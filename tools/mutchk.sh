#!/bin/bash
# mutchk.sh <seeded-id> [check ...] : applies seeded/<id>/patch.diff to a scratch worktree and runs the quick check(s) against it
id=$1; shift; checks=${@:-${id%%-*}}
R=/tmp/mutchk_$$; git -C /repo worktree add -q --detach $R HEAD
git -C $R apply /verif/seeded/$id/patch.diff || { echo "$id does not apply"; git -C /repo worktree remove --force $R; exit 2; }
for c in $checks; do VERIF_REPO=$R /verif/check $c | grep -E "^(VIOLATION|OK|FAIL|KNOWN)" | cut -c1-260; done
git -C /repo worktree remove --force $R
