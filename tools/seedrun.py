#!/usr/bin/env python3
"""seedrun.py <PROP> <dir-with-k/patch.diff,demo.py,meta.json> [--checks C03,C05]
Confirms each seeded change in a scratch worktree (tests pass with it, demo fails with it and passes without it),
stores it under /verif/seeded/<PROP>-<slug>/, then applies it to /repo, runs the quick check(s), and undoes it."""
import json, os, shutil, subprocess, sys

def sh(cmd, **kw):
    p = subprocess.run(cmd, shell=True, stdout=subprocess.PIPE, stderr=subprocess.STDOUT, text=True, **kw)
    return p.returncode, p.stdout

prop, src = sys.argv[1], sys.argv[2]
checks = [prop]
if '--checks' in sys.argv:
    checks = sys.argv[sys.argv.index('--checks') + 1].split(',')
prefix = sys.argv[sys.argv.index('--prefix') + 1] if '--prefix' in sys.argv else ''
seed = sys.argv[sys.argv.index('--seed') + 1] if '--seed' in sys.argv else '0'
SV = '/tmp/seedverify_' + prop + prefix
RR = '/tmp/seedrepo_' + prop + prefix     # the checks run against this scratch worktree (VERIF_REPO), not /repo itself
sh('git -C /repo worktree remove --force %s' % SV)
shutil.rmtree(SV, ignore_errors=True)
rc, out = sh('git -C /repo worktree add -q --detach %s HEAD' % SV)
assert rc == 0, out
sh('git -C /repo worktree remove --force %s' % RR)
shutil.rmtree(RR, ignore_errors=True)
rc, out = sh('git -C /repo worktree add -q --detach %s HEAD' % RR)
assert rc == 0, out
results = []
try:
    for k in sorted(os.listdir(src)):
        d = os.path.join(src, k)
        if not os.path.exists(os.path.join(d, 'patch.diff')):
            continue
        meta = json.load(open(os.path.join(d, 'meta.json'))) if os.path.exists(os.path.join(d, 'meta.json')) else {}
        r = dict(k=k, summary=meta.get('summary', ''))
        sh('git -C %s checkout -- .' % SV)
        rc, out = sh('git -C %s apply %s/patch.diff' % (SV, d))
        r['applies'] = rc == 0
        if rc != 0:
            r['note'] = out[-300:]
            results.append(r)
            continue
        rc, out = sh('cd %s && /venv/bin/python -m pytest -q -p no:cacheprovider -x tests 2>&1 | tail -2' % SV)
        r['tests_pass_with_change'] = ' passed' in out and 'failed' not in out
        rc1, o1 = sh('PYTHONPATH=%s timeout 120 /venv/bin/python %s/demo.py' % (SV, d))
        r['demo_fails_with_change'] = rc1 != 0
        sh('git -C %s checkout -- .' % SV)
        rc2, o2 = sh('PYTHONPATH=%s timeout 120 /venv/bin/python %s/demo.py' % (SV, d))
        r['demo_passes_without'] = rc2 == 0
        confirmed = r['tests_pass_with_change'] and r['demo_fails_with_change'] and r['demo_passes_without']
        r['confirmed'] = confirmed
        # run my checks against it
        sh('git -C %s checkout -- .' % RR)
        rc, out = sh('git -C %s apply %s/patch.diff' % (RR, d))
        r['detected_by'] = {}
        try:
            for c in checks:
                rc, out = sh('cd /verif && VERIF_REPO=%s VERIF_SEED=%s ./check %s --tier quick' % (RR, seed, c))
                line = [l for l in out.split('\n') if l.startswith('VIOLATION')]
                r['detected_by'][c] = dict(exit=rc, line=line[0] if line else '', tail=out.strip().split('\n')[-1][:200])
        finally:
            sh('git -C %s checkout -- .' % RR)
        if confirmed:
            dest = '/verif/seeded/%s-%s%s' % (prop, prefix, k)
            os.makedirs(dest, exist_ok=True)
            shutil.copy(os.path.join(d, 'patch.diff'), dest)
            shutil.copy(os.path.join(d, 'demo.py'), dest)
            meta.update(dict(property=prop, verified=dict(tests_pass_with_change=True, demo_fails_with_change=True,
                                                          demo_passes_without=True,
                                                          ran='pytest tests in a scratch worktree of /repo HEAD with the patch; demo.py with and without the patch'),
                             checks={c: v for c, v in r['detected_by'].items()}))
            json.dump(meta, open(os.path.join(dest, 'meta.json'), 'w'), indent=1)
        results.append(r)
finally:
    sh('git -C /repo worktree remove --force %s' % SV)
    sh('git -C /repo worktree remove --force %s' % RR)
for r in results:
    r["summary"] = r.get("summary", "")[:200]
    print(json.dumps(r))
